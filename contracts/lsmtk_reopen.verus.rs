// Unit lsmtk_reopen (C01, reopening; function-local): tree::recover::construct_adj_list and key_range_overlap -- the first step
// of rebuilding the tree's shape from the metadata records of the files the manifest lists -- extracted entire.  The level a
// file ends up in is computed from this graph, so its edges ARE the claim "newer data sits above older data" at reopening.
// Proved, for any number of files with any key ranges and timestamp ranges:
//   * Ok only if every file's timestamp range is in order (smallest <= biggest);
//   * two files are linked exactly when their key ranges overlap;
//   * the link points from the newer file to the older one when their timestamp ranges are disjoint (newer -> older and
//     NOT older -> newer), and both ways when the timestamp ranges interleave (the two then fall into one component);
//   * nothing else is in the graph (no self-loops, no index out of range).
// What the rest of recover does with the graph (Tarjan's SCC, the BFS that turns it into levels) is not under contract;
// its last two steps are regions of unit lsmtk_balance.
// ASSUMED: `<=` on Vec<u8> is the lexicographic order on byte strings (stub key_le: an uninterpreted total preorder is
// all this unit needs); BTreeSet::insert adds the pair.  `for j in i + 1..n` with `continue` is read as a while loop whose
// counter is advanced at the top of the body (Verus has no `continue` in `for`); the error decoration is dropped.
use vstd::prelude::*;
verus! {
global size_of usize == 8;

#[verifier::external_body]
struct SError { _p: u8 }
#[verifier::external_body]
struct OtherMeta { _p: u8 }
struct SstMetadata { setsum: [u8; 32], first_key: Vec<u8>, last_key: Vec<u8>, smallest_timestamp: u64, biggest_timestamp: u64, file_size: u64, rest: OtherMeta }
uninterp spec fn le(a: Seq<u8>, b: Seq<u8>) -> bool;
#[verifier::external_body]
fn key_le(a: &Vec<u8>, b: &Vec<u8>) -> (r: bool) ensures r == le(a@, b@) { unimplemented!() }
// `<` on Vec<u8>: below and different
#[verifier::external_body]
fn key_lt(a: &Vec<u8>, b: &Vec<u8>) -> (r: bool) ensures r == (le(a@, b@) && a@ != b@) { unimplemented!() }
#[verifier::external_body]
fn timestamps_out_of_order(m: &SstMetadata) -> (r: SError) { unimplemented!() }
spec fn overlap(a: SstMetadata, b: SstMetadata) -> bool { le(a.first_key@, b.last_key@) && le(b.first_key@, a.last_key@) }

#[verifier::external_body]
struct AdjacencyList { _p: u8 }
impl AdjacencyList {
    uninterp spec fn view(&self) -> ISet<(usize, usize)>;
    #[verifier::external_body]
    fn default() -> (r: AdjacencyList) ensures r@ == ISet::<(usize, usize)>::empty() { unimplemented!() }
    #[verifier::external_body]
    fn insert(&mut self, e: (usize, usize)) -> (r: bool) ensures final(self)@ == old(self)@.insert(e) { unimplemented!() }
}

//@ extract lsmtk/src/tree/recover.rs | fn key_range_overlap
//@ ret r
//@ rewrite-re? X7 `(\w+)\.first_key <= (\w+)\.last_key` => `key_le(&\1.first_key, &\2.last_key)`
//@ rewrite-re? X7 `(\w+)\.first_key < (\w+)\.last_key` => `key_lt(&\1.first_key, &\2.last_key)`
//@ post <<
        r == overlap(*lhs, *rhs),
//@ >>
//@ end

spec fn ordered(m: SstMetadata) -> bool { m.smallest_timestamp <= m.biggest_timestamp }
// what the graph must say about the pair a < b (x -> y: x holds something newer than something in y, so x sits above y).
// Taken from the property, not from the code: where two timestamp ranges merely touch (biggest == smallest) either
// reading is sound, so the edge is left free there.
spec fn pair_ok(adj: ISet<(usize, usize)>, md: Seq<SstMetadata>, a: int, b: int) -> bool {
    let fwd = adj.contains((a as usize, b as usize));
    let bwd = adj.contains((b as usize, a as usize));
    if !overlap(md[a], md[b]) { !fwd && !bwd }
    else if !(ordered(md[a]) && ordered(md[b])) { true }      // a file with its timestamps out of order makes the function fail
    else {
        &&& fwd || bwd                                                             // overlapping files are always linked
        &&& md[a].biggest_timestamp > md[b].smallest_timestamp ==> fwd             // a holds something newer than some of b
        &&& md[a].biggest_timestamp < md[b].smallest_timestamp ==> !fwd            // all of a is older than all of b
        &&& md[b].biggest_timestamp > md[a].smallest_timestamp ==> bwd
        &&& md[b].biggest_timestamp < md[a].smallest_timestamp ==> !bwd
    }
}
// every edge joins a pair (a, b) with a < b, a below `rows`, and, in row `rows` itself, b below `cols`
spec fn edges_within(adj: ISet<(usize, usize)>, rows: int, cols: int) -> bool {
    forall|x: usize, y: usize| adj.contains((x, y)) ==> x != y && ({
        let a = if x < y { x } else { y }; let b = if x < y { y } else { x };
        a < rows || (a == rows && b < cols)
    })
}

// one step of the inner loop, for the pair i < j: whatever it adds, it adds only edges between i and j, and leaves the
// pair as pair_ok wants it (stated as an implication: a body that does something else fails the loop invariants, not
// this call)
spec fn step_ok(adj0: ISet<(usize, usize)>, adj: ISet<(usize, usize)>, md: Seq<SstMetadata>, i: int, j: int) -> bool {
    &&& forall|x: usize, y: usize| adj0.contains((x, y)) ==> adj.contains((x, y))
    &&& forall|x: usize, y: usize| adj.contains((x, y)) ==> adj0.contains((x, y)) || (x == i && y == j) || (x == j && y == i)
    &&& pair_ok(adj, md, i, j)
}
proof fn lemma_step(adj0: ISet<(usize, usize)>, adj: ISet<(usize, usize)>, md: Seq<SstMetadata>, i: int, j: int)
    requires 0 <= i < j < md.len(), md.len() <= usize::MAX,
        edges_within(adj0, i, j),
        forall|a: int, b: int| 0 <= a < b < md.len() && a < i ==> #[trigger] pair_ok(adj0, md, a, b),
        forall|b: int| i < b < j ==> #[trigger] pair_ok(adj0, md, i, b),
        md[i].smallest_timestamp <= md[i].biggest_timestamp,
    ensures
        // the pair (i, j) has no edge yet
        !adj0.contains((i as usize, j as usize)) && !adj0.contains((j as usize, i as usize)),
        step_ok(adj0, adj, md, i, j) ==> edges_within(adj, i, j + 1)
            && (forall|a: int, b: int| 0 <= a < b < md.len() && a < i ==> #[trigger] pair_ok(adj, md, a, b))
            && (forall|b: int| i < b < j + 1 ==> #[trigger] pair_ok(adj, md, i, b)),
{
    let iu = i as usize; let ju = j as usize;
    assert(!adj0.contains((iu, ju)) && !adj0.contains((ju, iu)));
    if step_ok(adj0, adj, md, i, j) {
        assert(edges_within(adj, i, j + 1));
        assert forall|a: int, b: int| 0 <= a < b < md.len() && a < i implies #[trigger] pair_ok(adj, md, a, b) by {
            assert(pair_ok(adj0, md, a, b));
            assert(adj.contains((a as usize, b as usize)) == adj0.contains((a as usize, b as usize)));
            assert(adj.contains((b as usize, a as usize)) == adj0.contains((b as usize, a as usize)));
        }
        assert forall|b: int| i < b < j + 1 implies #[trigger] pair_ok(adj, md, i, b) by {
            if b < j {
                assert(pair_ok(adj0, md, i, b));
                assert(adj.contains((iu, b as usize)) == adj0.contains((iu, b as usize)));
                assert(adj.contains((b as usize, iu)) == adj0.contains((b as usize, iu)));
            }
        }
    }
}

//@ extract lsmtk/src/tree/recover.rs | fn construct_adj_list
//@ ret r
//@ rewrite-re X4 `metadata: &\[SstMetadata\]` => `metadata: &Vec<SstMetadata>`
//@ rewrite-re X7 `(?s)let err = corruption\("metadata timestamps not in order"\).*?;\s*return Err\(err\);` => `return Err(timestamps_out_of_order(&metadata[i]));`
//@ rewrite-re X13 `for j in (.+?)\.\.metadata\.len\(\) \{` => `let mut jn: usize = \1; while jn < metadata.len() { let j = jn; jn = jn + 1;`
//@ rewrite-re? X4 `forward_adj_list\.insert\(\((\w+), (\w+)\)\);` => `let _ = forward_adj_list.insert((\1, \2));`
//@ post <<
        r is Ok ==> (forall|i: int| 0 <= i < metadata@.len() ==> (#[trigger] metadata@[i]).smallest_timestamp <= metadata@[i].biggest_timestamp)
            && (forall|a: int, b: int| 0 <= a < b < metadata@.len() ==> #[trigger] pair_ok(r->Ok_0@, metadata@, a, b))
            && edges_within(r->Ok_0@, metadata@.len() as int, 0),
//@ >>
//@ loop `for i in` <<
        invariant /* contract-inv */
            forall|k: int| 0 <= k < i ==> (#[trigger] metadata@[k]).smallest_timestamp <= metadata@[k].biggest_timestamp, /* contract-inv */
            forall|a: int, b: int| 0 <= a < b < metadata@.len() && a < i ==> #[trigger] pair_ok(forward_adj_list@, metadata@, a, b), /* contract-inv */
            edges_within(forward_adj_list@, i as int, 0), /* contract-inv */
//@ >>
//@ loop `while jn <` <<
            invariant i < metadata@.len(), i + 1 <= jn <= metadata@.len(),
                metadata@[i as int].smallest_timestamp <= metadata@[i as int].biggest_timestamp, /* contract-inv */
                forall|a: int, b: int| 0 <= a < b < metadata@.len() && a < i ==> #[trigger] pair_ok(forward_adj_list@, metadata@, a, b), /* contract-inv */
                forall|b: int| i < b < jn ==> #[trigger] pair_ok(forward_adj_list@, metadata@, i as int, b), /* contract-inv */
                edges_within(forward_adj_list@, i as int, jn as int), /* contract-inv */
            decreases metadata@.len() - jn,
//@ >>
//@ startloop `while jn <` <<
            let ghost adj0 = forward_adj_list@;
            let ghost j0 = jn as int;
//@ >>
//@ before? `continue;` <<
                proof { lemma_step(adj0, forward_adj_list@, metadata@, i as int, j0); }
//@ >>
//@ endloop `while jn <` <<
            proof { lemma_step(adj0, forward_adj_list@, metadata@, i as int, j0); }
//@ >>
//@ end

//@ min-verified 4
} // verus!
fn main() {}
