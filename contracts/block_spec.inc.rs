// The byte-level model of one SST data block, shared by unit sst_block (the cursor) and unit sst_blockb (the builder).
// ---------------------------------------------------------------- what one entry decodes to
struct EntryV { shared: int, frag: Seq<u8>, ts: u64, val: Option<(int, int)>, next: int }
uninterp spec fn entry_at(bytes: Seq<u8>, off: int, boundary: int) -> Option<EntryV>;
// ASSUMED: a decoded entry consumes at least one byte, ends at or before the boundary, and its value (a sub-slice
// of the input) lies inside the bytes it consumed
#[verifier::external_body]
proof fn axiom_entry(bytes: Seq<u8>, off: int, boundary: int)
    ensures entry_at(bytes, off, boundary) is Some ==> ({
        let e = entry_at(bytes, off, boundary)->Some_0;
        &&& off < e.next <= boundary && e.shared >= 0
        &&& e.val is Some ==> off <= e.val->Some_0.0 && e.val->Some_0.1 >= 0 && e.val->Some_0.0 + e.val->Some_0.1 <= e.next
    })
{ }

// Arc<Vec<u8>> read as Vec<u8>
struct Block { bytes: Vec<u8>, restarts_boundary: usize, restarts_idx: usize, num_restarts: usize }

spec fn le32(s: Seq<u8>, i: int) -> int { s[i] as int + 256 * (s[i + 1] as int) + 65536 * (s[i + 2] as int) + 16777216 * (s[i + 3] as int) }
// `u32::from_le_bytes(restart)` (std; its array-length type is a const expression Verus cannot name)
#[verifier::external_body]
fn u32_from_le_bytes(b: [u8; 4]) -> (r: u32)
    ensures r as int == le32(b@, 0),
{ unimplemented!() }

impl Block {
    spec fn bnd(&self) -> int { self.restarts_boundary as int }
    spec fn rp(&self, r: int) -> int { le32(self.bytes@, self.restarts_idx as int + 4 * r) }
    spec fn layout(&self) -> bool {
        self.restarts_boundary <= self.restarts_idx && self.restarts_idx + 4 * self.num_restarts <= self.bytes@.len() && self.num_restarts >= 1
            && self.bytes@.len() <= 0x4000_0000   // blocks are far below the table size limit
    }
    // offset and key of the j-th entry of the chain
    spec fn off_at(&self, j: int) -> int
        decreases j
    {
        if j <= 0 { 0 } else {
            match entry_at(self.bytes@, self.off_at(j - 1), self.bnd()) { Some(e) => e.next, None => self.bnd() }
        }
    }
    spec fn ev(&self, j: int) -> EntryV { entry_at(self.bytes@, self.off_at(j), self.bnd())->Some_0 }
    spec fn is_rp(&self, off: int) -> bool { exists|r: int| 0 <= r < self.num_restarts && #[trigger] self.rp(r) == off }
    spec fn key_j(&self, j: int) -> Seq<u8>
        decreases j
    {
        let e = self.ev(j);
        let prev = if j <= 0 || self.is_rp(self.off_at(j)) { Seq::<u8>::empty() } else { self.key_j(j - 1) };
        trunc(prev, e.shared) + e.frag
    }
    // n entries: the chain decodes n times and then stands exactly at the boundary
    spec fn chain(&self, n: int) -> bool {
        &&& n >= 0 && self.off_at(n) == self.bnd()
        &&& forall|j: int| 0 <= j < n ==> #[trigger] self.off_at(j) < self.bnd() && entry_at(self.bytes@, self.off_at(j), self.bnd()) is Some
    }
    spec fn n(&self) -> int { choose|n: int| self.chain(n) }
    spec fn ent(&self, j: int) -> Ent {
        let e = self.ev(j);
        Ent { key: self.key_j(j), ts: e.ts, val: match e.val { Some(v) => Some(self.bytes@.subrange(v.0, v.0 + v.1)), None => None } }
    }
    spec fn ents(&self) -> Seq<Ent> { Seq::new(self.n() as nat, |j: int| self.ent(j)) }
    spec fn is_off(&self, off: int) -> bool { exists|j: int| 0 <= j < self.n() && #[trigger] self.off_at(j) == off }
    // index of the entry at offset `off`
    spec fn idx_of(&self, off: int) -> int { choose|j: int| 0 <= j < self.n() && #[trigger] self.off_at(j) == off }
    // well-formed, possibly empty (a builder that has accepted nothing yet)
    spec fn wf0(&self) -> bool {
        &&& self.layout()
        &&& self.chain(self.n())
        &&& self.rp(0) == 0
        &&& forall|r1: int, r2: int| 0 <= r1 < r2 < self.num_restarts ==> #[trigger] self.rp(r1) < #[trigger] self.rp(r2)
        &&& forall|r: int| 0 <= r < self.num_restarts ==> self.is_off(#[trigger] self.rp(r)) || (self.n() == 0 && self.rp(r) == 0)
        // the builder writes a full key at every restart point
        &&& forall|j: int| 0 <= j < self.n() && self.is_rp(#[trigger] self.off_at(j)) ==> self.ev(j).shared == 0
        &&& self.sorted_ok()
    }
    spec fn wf(&self) -> bool { self.wf0() }
    #[verifier::opaque]
    spec fn sorted_ok(&self) -> bool { sorted(self.ents()) }
}
spec fn trunc(s: Seq<u8>, k: int) -> Seq<u8> { if 0 <= k < s.len() { s.subrange(0, k) } else { s } }

// ---------------------------------------------------------------- facts about the chain
// an empty block is one whose entries end at offset 0
proof fn lemma_empty_block(b: Block)
    requires b.wf0()
    ensures (b.bnd() == 0) == (b.n() == 0)
{
    if b.n() >= 1 { assert(b.off_at(0) < b.bnd()); }
}
proof fn lemma_off_mono(b: Block, i: int, j: int)
    requires b.chain(b.n()), 0 <= i < j <= b.n()
    ensures b.off_at(i) < b.off_at(j)
    decreases j - i
{
    axiom_entry(b.bytes@, b.off_at(j - 1), b.bnd());
    if i < j - 1 { lemma_off_mono(b, i, j - 1); }
}
proof fn lemma_off_inj(b: Block, i: int, j: int)
    requires b.chain(b.n()), 0 <= i <= b.n(), 0 <= j <= b.n(), b.off_at(i) == b.off_at(j)
    ensures i == j
{
    if i < j { lemma_off_mono(b, i, j); } else if j < i { lemma_off_mono(b, j, i); }
}
proof fn lemma_idx_of(b: Block, j: int)
    requires b.chain(b.n()), 0 <= j < b.n()
    ensures b.idx_of(b.off_at(j)) == j
{
    let k = b.idx_of(b.off_at(j));
    lemma_off_inj(b, k, j);
}


proof fn lemma_rp_mono(b: Block, a: int, c: int)
    requires b.wf(), 0 <= a < c < b.num_restarts
    ensures b.rp(a) < b.rp(c)
{ }
// no entry starts strictly between two consecutive entries
proof fn lemma_no_gap(b: Block, j: int, k: int)
    requires b.chain(b.n()), 0 <= j < b.n(), 0 <= k <= b.n(), b.off_at(j) < b.off_at(k)
    ensures b.off_at(j + 1) <= b.off_at(k)
{
    if k <= j { if k < j { lemma_off_mono(b, k, j); } }
    else if k > j + 1 { lemma_off_mono(b, j + 1, k); }
}

// stepping from entry j0 (in restart interval ri) to entry j0+1
proof fn lemma_step_restart(b: Block, j0: int, ri: int)
    requires b.wf(), 0 <= j0, j0 + 1 < b.n(), 0 <= ri, ri + 1 < b.num_restarts, b.off_at(j0) < b.rp(ri + 1), b.rp(ri + 1) <= b.off_at(j0 + 1)
    ensures b.rp(ri + 1) == b.off_at(j0 + 1), b.idx_of(b.rp(ri + 1)) == j0 + 1
{
    assert(b.is_off(b.rp(ri + 1)));
    let jr = b.idx_of(b.rp(ri + 1));
    lemma_no_gap(b, j0, jr);
    lemma_off_inj(b, jr, j0 + 1);
}
proof fn lemma_step_same(b: Block, j0: int, ri: int)
    requires b.wf(), 0 <= j0, j0 + 1 < b.n(), 0 <= ri < b.num_restarts, b.rp(ri) <= b.off_at(j0),
        ri + 1 < b.num_restarts ==> b.off_at(j0 + 1) < b.rp(ri + 1),
    ensures !b.is_rp(b.off_at(j0 + 1)), entry_at(b.bytes@, b.off_at(j0 + 1), b.bnd()) is Some,
        b.key_j(j0 + 1) == trunc(b.key_j(j0), b.ev(j0 + 1).shared) + b.ev(j0 + 1).frag,
        b.off_at(j0 + 2) == b.ev(j0 + 1).next, b.rp(ri) <= b.off_at(j0 + 1),
{
    lemma_off_mono(b, j0, j0 + 1);
    if b.is_rp(b.off_at(j0 + 1)) {
        let r = choose|r: int| 0 <= r < b.num_restarts && #[trigger] b.rp(r) == b.off_at(j0 + 1);
        if r < ri { lemma_rp_mono(b, r, ri); }
        else if r > ri + 1 { lemma_rp_mono(b, ri + 1, r); }
    }
}

proof fn lemma_ents_index(b: Block, j: int)
    requires 0 <= j < b.n()
    ensures b.ents()[j] == b.ent(j), b.ents().len() == b.n()
{ }

