// Unit sst_open (C09, the UNCHECKSUMMED tail of an SST): Sst::from_file_handle, Sst::load_block, Sst::load_filter_block
// and BlockMetadata::sanity_check with the file, every read and every decoder returning ARBITRARY values -- so for every
// content a damaged file can have, in particular any final block and any final-block offset:
//   * no arithmetic overflow or underflow in the offset computations,
//   * every buffer allocated for a read is at most as long as the file (bounded allocation),
//   * the index block and the filter block are read only after their extents have been checked to lie, in order,
//     below the final block.
// What the blocks decode to (derive-generated FinalBlock / SstEntry decoders, Block::new behind its CRC check) is not
// interpreted here.
use vstd::prelude::*;
use std::io::SeekFrom;
use std::sync::Arc;
verus! {
global size_of usize == 8;

#[verifier::external_type_specification]
pub struct ExSeekFrom(std::io::SeekFrom);

#[verifier::external_body]
struct SError { _p: u8 }
//@ stubs sst/src/lib.rs -> SError
#[verifier::external_body]
struct IoError { _p: u8 }
#[verifier::external_body]
struct PError { _p: u8 }
#[verifier::external_body]
struct Block { _p: u8 }
#[verifier::external_body]
struct Filter { _p: u8 }
#[verifier::external_body]
struct SstIndexEntry { _p: u8 }

// the file: its size is what seek(End(0)) reports; reads may fail or return anything
#[verifier::external_body]
struct Handle { _p: u8 }
impl Handle {
    uninterp spec fn size(&self) -> u64;
    #[verifier::external_body]
    fn seek(&mut self, to: SeekFrom) -> (r: Result<u64, IoError>)
        ensures final(self).size() == old(self).size(), r is Ok ==> r->Ok_0 == old(self).size(),
    { unimplemented!() }
}
// `handle.read_exact_at(&mut buf, offset)`: the buffer keeps its length, its contents are arbitrary
#[verifier::external_body]
fn read_exact_at(handle: &Handle, buf: &mut Vec<u8>, offset: u64) -> (r: Result<(), IoError>)
    ensures final(buf)@.len() == old(buf)@.len(),
{ unimplemented!() }
// every allocation made for reading the file: at most as long as the file
#[verifier::external_body]
fn zeroed(n: usize, Ghost(file_size): Ghost<u64>) -> (r: Vec<u8>)
    requires n <= file_size,
    ensures r@.len() == n,
{ unimplemented!() }
#[verifier::external_body]
fn resize_to(buf: &mut Vec<u8>, n: usize, Ghost(file_size): Ghost<u64>)
    requires n <= file_size,
    ensures final(buf)@.len() == n,
{ unimplemented!() }
#[verifier::external_body]
fn io_result<T>(result: Result<T, IoError>) -> (r: Result<T, SError>)
    ensures (r is Ok) == (result is Ok), r is Ok ==> r->Ok_0 == result->Ok_0,
{ unimplemented!() }

//@ extract sst/src/lib.rs | struct BlockMetadata
//@ end
//@ extract sst/src/lib.rs | struct FinalBlock
//@ end
// the decoders: ANY value may come back
#[verifier::external_body]
fn unpack_u64(buf: &Vec<u8>) -> (r: Result<u64, SError>) { unimplemented!() }
#[verifier::external_body]
fn unpack_final(buf: &Vec<u8>) -> (r: Result<FinalBlock, SError>) { unimplemented!() }

#[verifier::external_body]
fn decode_plain_block(buf: &Vec<u8>, md: &BlockMetadata) -> (r: Result<Block, SError>) { unimplemented!() }
#[verifier::external_body]
fn decode_filter_block(buf: &Vec<u8>, md: &BlockMetadata) -> (r: Result<Filter, SError>) { unimplemented!() }
//@ extract sst/src/lib.rs | fn corruption_file_too_small
//@ external-body
//@ optional
//@ end
//@ extract sst/src/lib.rs | fn corruption_final_block_offset_too_large
//@ external-body
//@ optional
//@ end
//@ extract sst/src/lib.rs | fn corruption_index_block_runs_past_filter_block
//@ external-body
//@ optional
//@ end
//@ extract sst/src/lib.rs | fn corruption_filter_block_runs_past_final_block
//@ external-body
//@ optional
//@ end
//@ extract sst/src/lib.rs | fn corruption_block_metadata_start_gte_limit
//@ external-body
//@ optional
//@ end

impl BlockMetadata {
//@ extract sst/src/lib.rs | impl BlockMetadata :: fn sanity_check
//@ ret r
//@ post <<
        r is Ok <==> self.start < self.limit,
//@ >>
//@ end
}

// only what from_file_handle touches
struct Sst { handle: Handle, final_block: FinalBlock, index_block: Block, index_entries: Arc<Vec<SstIndexEntry>>, filter: Filter, file_size: u64 }

impl Sst {
    // reading one block: the buffer is (limit - start) bytes -- the caller has to have bounded the extent by the file;
    // what follows the read (SstEntry decoder, CRC comparison, Block::new / Filter::try_from) is not interpreted
//@ extract sst/src/lib.rs | impl Sst<W> :: fn load_block
//@ ret r
//@ rewrite-re X4 `\(file: &W, ` => `(file: &Handle, `
//@ rewrite X7 `let mut buf: Vec<u8> = vec![0u8; amt];` => `let mut buf: Vec<u8> = zeroed(amt, Ghost(file.size()));`
//@ rewrite X7 `io_result(file.read_exact_at(&mut buf, block_metadata.start))?;` => `io_result(read_exact_at(file, &mut buf, block_metadata.start))?;`
//@ rewrite-re X7 `(?s)let mut up = Unpacker::new\(&buf\);.*\n        \}\n` => `decode_plain_block(&buf, block_metadata)\n`
//@ pre <<
        block_metadata.start < block_metadata.limit ==> block_metadata.limit <= file.size(),
//@ >>
//@ end
//@ extract sst/src/lib.rs | impl Sst<W> :: fn load_filter_block
//@ ret r
//@ rewrite-re X4 `\(file: &W, ` => `(file: &Handle, `
//@ rewrite X7 `let mut buf: Vec<u8> = vec![0u8; amt];` => `let mut buf: Vec<u8> = zeroed(amt, Ghost(file.size()));`
//@ rewrite X7 `io_result(file.read_exact_at(&mut buf, block_metadata.start))?;` => `io_result(read_exact_at(file, &mut buf, block_metadata.start))?;`
//@ rewrite-re X7 `(?s)let mut up = Unpacker::new\(&buf\);.*\n        \}\n` => `decode_filter_block(&buf, block_metadata)\n`
//@ pre <<
        block_metadata.start < block_metadata.limit ==> block_metadata.limit <= file.size(),
//@ >>
//@ end
    #[verifier::external_body]
    fn load_index_entries(index_block: &Block) -> (r: Result<Vec<SstIndexEntry>, SError>) { unimplemented!() }

//@ extract sst/src/lib.rs | impl Sst<W> :: fn from_file_handle
//@ ret r
//@ rewrite-re X4 `\(mut handle: W\)` => `(mut handle: Handle)`
//@ rewrite X7 `let mut buf: Vec<u8> = vec![0, 0, 0, 0, 0, 0, 0, 0];` => `let mut buf: Vec<u8> = zeroed(8, Ghost(file_size));`
//@ rewrite-re X7 `io_result\(handle\.read_exact_at\(&mut buf, (\w+)\)\)\?;` => `io_result(read_exact_at(&handle, &mut buf, \1))?;`
//@ rewrite-re X7 `let mut up = Unpacker::new\(&buf\);\s*let final_block_offset: u64 = up\s*\.unpack\(\)\s*\.map_err\(\|e: buffertk::SError\| unpack_final_block_offset\(e\)\)\?;` => `let final_block_offset: u64 = unpack_u64(&buf)?;`
//@ rewrite-re X7 `let mut up = Unpacker::new\(&buf\);\s*let final_block: FinalBlock = up\.unpack\(\)\.map_err\(unpack_final_block\)\?;` => `let final_block: FinalBlock = unpack_final(&buf)?;`
//@ rewrite X7 `buf.resize(size_of_final_block as usize, 0);` => `resize_to(&mut buf, size_of_final_block as usize, Ghost(file_size));`
//@ rewrite-re X4 `Sst::<W>::` => `Sst::`
//@ end
}

//@ min-verified 4
} // verus!
fn main() {}
