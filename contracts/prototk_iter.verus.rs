// Unit prototk_iter (C15 totality of the record walkers, C09 for every decoder built on them): buffertk::Unpacker
// {new, is_empty, remain, take, advance}, buffertk::v64::pack_sz, prototk::{WireType::new, Tag::unpack,
// take_length_prefixed, FieldIterator::{new, remain, next}} extracted and proved for byte strings of EVERY length:
//   * no slice index out of range, no arithmetic overflow, no unwrap of an error -- whatever the bytes are;
//   * the unpacker only ever moves forward inside its buffer (what is left is a suffix of what was there);
//   * the slice FieldIterator::next hands out lies inside the buffer it was given.
// ASSUMED (discharged on the compiled crate by the complete Kani harness buffertk_varint::unpack_total_matches_definition,
// which decides the decoder on every byte string it can look at): v64::unpack, when it succeeds, consumes between 1 and 10
// bytes, leaves the rest of the buffer, and never consumes fewer bytes than the canonical encoding of the value has
// (pack_sz <= consumed).  FieldNumber::new (a range test over u32) may return anything.
use vstd::prelude::*;
verus! {
global size_of usize == 8;

#[verifier::external_body]
struct SError { _p: u8 }
//@ stubs prototk/src/lib.rs -> SError
#[verifier::external_body]
fn invalid_field_number(field_number: u32, what: &str) -> (r: SError) { unimplemented!() }

// ---------------------------------------------------------------- varint
//@ extract buffertk/src/varint.rs | struct v64
//@ prefix #[derive(Clone, Copy)]
//@ end
spec fn varint_len(x: u64) -> int
    decreases x
{
    if x < 128 { 1 } else { 1 + varint_len(x / 128) }
}
proof fn lemma_varint_len(x: u64) ensures 1 <= varint_len(x) <= 10
{
    assert(x / 128 / 128 / 128 / 128 / 128 / 128 / 128 / 128 / 128 < 128) by (bit_vector);
    reveal_with_fuel(varint_len, 11);
}
impl v64 {
//@ extract buffertk/src/varint.rs | impl Packable for v64 :: fn pack_sz
//@ ret r
//@ post <<
        r == varint_len(self.x), 1 <= r <= 10,
//@ >>
//@ bodystart <<
        proof { lemma_varint_len(self.x); }
        let ghost x0 = self.x;
//@ >>
//@ before `x >>= 7;` <<
        proof { assert(x >> 7 == x / 128) by (bit_vector); }
//@ >>
//@ loop 0 <<
            invariant count as int + (if x > 0 { varint_len(x) } else { 0 }) == varint_len(x0), 1 <= count <= 10, /* contract-inv */
                1 <= varint_len(x0) <= 10,
            decreases x,
//@ >>
//@ startloop 0 <<
            proof { assert(x >> 7 == x / 128) by (bit_vector); assert(x > 0 ==> x >> 7 < x) by (bit_vector); lemma_varint_len(x); }
//@ >>
//@ end
    // `let sz: usize = x.into();` (Into<usize> for v64: try_into().unwrap() on a 64-bit target)
    #[verifier::external_body]
    fn into_usize(self) -> (r: usize) ensures r == self.x { unimplemented!() }
    #[verifier::external_body]
    fn into_u64(self) -> (r: u64) ensures r == self.x { unimplemented!() }
}

// ---------------------------------------------------------------- Unpacker
//@ extract buffertk/src/lib.rs | struct Unpacker
//@ end
// the value v64::unpack decodes from the front of a buffer (when it succeeds)
uninterp spec fn dec_value(buf: Seq<u8>) -> u64;
spec fn is_suffix(rest: Seq<u8>, of: Seq<u8>) -> bool { exists|k: int| 0 <= k <= of.len() && rest == #[trigger] of.skip(k) }
// a slice is never longer than usize::MAX (Verus learns this only where the code calls len() on that very slice)
#[verifier::external_body]
proof fn axiom_slice_len(s: &[u8]) ensures s@.len() <= usize::MAX { }
proof fn lemma_suffix_skip(of: Seq<u8>, k: int) requires 0 <= k <= of.len() ensures is_suffix(of.skip(k), of) { }
proof fn lemma_suffix_refl(of: Seq<u8>) ensures is_suffix(of, of) { assert(of.skip(0) =~= of); }
proof fn lemma_skip_skip(s: Seq<u8>, a: int, b: int) requires 0 <= a, 0 <= b, a + b <= s.len() ensures s.skip(a).skip(b) == s.skip(a + b)
{ assert(s.skip(a).skip(b) =~= s.skip(a + b)); }
impl<'a> Unpacker<'a> {
//@ extract buffertk/src/lib.rs | impl Unpacker<'a> :: fn new
//@ ret r
//@ post <<
        r.buf@ == buf@,
//@ >>
//@ end
//@ extract buffertk/src/lib.rs | impl Unpacker<'a> :: fn is_empty
//@ ret r
//@ post <<
        r == (self.buf@.len() == 0),
//@ >>
//@ end
//@ extract buffertk/src/lib.rs | impl Unpacker<'a> :: fn remain
//@ ret r
//@ post <<
        r@ == self.buf@,
//@ >>
//@ end
//@ extract buffertk/src/lib.rs | impl Unpacker<'a> :: fn take
//@ ret r
//@ post <<
        r is Ok <==> by <= old(self).buf@.len(),
        r is Ok ==> r->Ok_0@ == old(self).buf@.take(by as int) && final(self).buf@ == old(self).buf@.skip(by as int),
        r is Err ==> final(self).buf@ == old(self).buf@,
//@ >>
//@ end
//@ extract buffertk/src/lib.rs | impl Unpacker<'a> :: fn advance
//@ post <<
        final(self).buf@ == (if by > old(self).buf@.len() { Seq::<u8>::empty() } else { old(self).buf@.skip(by as int) }),
//@ >>
//@ end
    // `self.unpack::<v64>()`: see the header (Kani: buffertk_varint::unpack_total_matches_definition)
    #[verifier::external_body]
    fn unpack_v64(&mut self) -> (r: Result<v64, SError>)
        ensures r is Ok ==> r->Ok_0.x == dec_value(old(self).buf@),
            r is Ok ==> (exists|k: int| 1 <= k <= 10 && k <= old(self).buf@.len() && varint_len(r->Ok_0.x) <= k && final(self).buf@ == old(self).buf@.skip(k)),
            r is Err ==> final(self).buf@ == old(self).buf@,
    { unimplemented!() }
}

// ---------------------------------------------------------------- tags
//@ extract prototk/src/lib.rs | struct FieldNumber
//@ prefix #[derive(Clone, Copy)]
//@ end
impl FieldNumber {
    #[verifier::external_body]
    fn new(field_number: u32) -> (r: Result<FieldNumber, SError>) ensures r is Ok ==> r->Ok_0.field_number == field_number { unimplemented!() }
}
//@ extract prototk/src/lib.rs | enum WireType
//@ prefix #[derive(Clone, Copy)]
//@ end
spec fn wt_bits(w: WireType) -> u32 { match w { WireType::Varint => 0, WireType::SixtyFour => 1, WireType::LengthDelimited => 2, WireType::ThirtyTwo => 5 } }
impl WireType {
//@ extract prototk/src/lib.rs | impl WireType :: fn new
//@ ret r
//@ post <<
        r is Ok <==> (tag_bits == 0 || tag_bits == 1 || tag_bits == 2 || tag_bits == 5),
        r is Ok ==> wt_bits(r->Ok_0) == tag_bits,
//@ >>
//@ end
}
//@ extract prototk/src/lib.rs | struct Tag
//@ prefix #[derive(Clone, Copy)]
//@ end
impl Tag {
    // Unpackable::unpack for Tag (the trait-impl header is dropped; `up.unpack()` at type v64 is `up.unpack_v64()`)
//@ extract prototk/src/lib.rs | impl Unpackable<'a> for Tag :: fn unpack
//@ ret r
//@ rewrite-re X4 `fn unpack<'b: 'a>\(buf: &'b \[u8\]\)` => `fn unpack<'b>(buf: &'b [u8])`
//@ rewrite X7 `let tag: v64 = up.unpack()?;` => `let tag: v64 = up.unpack_v64()?;`
//@ rewrite X7 `let tag: u64 = tag.into();` => `let tag: u64 = tag.into_u64();`
//@ post <<
        r is Ok ==> (exists|k: int| 1 <= k <= 10 && k <= buf@.len() && r->Ok_0.1@ == buf@.skip(k)),
        // the protobuf tag: a varint that fits 32 bits, field number in the upper 29 bits, wire type in the lower 3
        r is Ok ==> dec_value(buf@) <= 0xffff_ffff && r->Ok_0.0.field_number.field_number == (dec_value(buf@) as u32) >> 3
            && wt_bits(r->Ok_0.0.wire_type) == (dec_value(buf@) as u32) & 7,
//@ >>
//@ end
}
impl<'a> Unpacker<'a> {
    // `self.unpack::<Tag>()`: Unpacker::unpack applied to the function above (`self.buf = rest`)
    fn unpack_tag(&mut self) -> (r: Result<Tag, SError>)
        ensures r is Ok ==> (exists|k: int| 1 <= k <= 10 && k <= old(self).buf@.len() && final(self).buf@ == old(self).buf@.skip(k)),
            r is Err ==> final(self).buf@ == old(self).buf@,
    {
        match Tag::unpack(self.buf) {
            Ok((t, buf)) => { self.buf = buf; Ok(t) }
            Err(e) => Err(e),
        }
    }
}

// ---------------------------------------------------------------- take_length_prefixed
//@ extract prototk/src/lib.rs | fn take_length_prefixed
//@ ret r
//@ rewrite X7 `let length: v64 = up.unpack()?;` => `let length: v64 = up.unpack_v64()?;`
//@ rewrite X7 `let length: usize = length.into();` => `let length: usize = length.into_usize();`
//@ bodystart <<
    let ghost b0 = up.buf@;
    proof { lemma_suffix_refl(b0); }
//@ >>
//@ before `up.take(length)` <<
    proof {
        let k = choose|k: int| 1 <= k <= 10 && k <= b0.len() && up.buf@ == #[trigger] b0.skip(k);
        lemma_suffix_skip(b0, k);
        lemma_skip_skip(b0, k, length as int);
        lemma_suffix_skip(b0, k + length as int);
        assert(b0.skip(k).take(length as int).len() == length);
    }
//@ >>
//@ post <<
        is_suffix(final(up).buf@, old(up).buf@),
        r is Ok ==> (exists|k: int| 1 <= k <= 10 && k + r->Ok_0@.len() <= old(up).buf@.len()
            && r->Ok_0@ == (#[trigger] old(up).buf@.skip(k)).take(r->Ok_0@.len() as int) && final(up).buf@ == old(up).buf@.skip(k).skip(r->Ok_0@.len() as int)),
//@ >>
//@ end

// ---------------------------------------------------------------- length-prefixed byte strings (buffertk)
// Unpackable::unpack for &[u8] (the trait-impl header is dropped; `v64::unpack(buf)` is the decoder of the header)
#[verifier::external_body]
fn v64_unpack<'b>(buf: &'b [u8]) -> (r: Result<(v64, &'b [u8]), SError>)
    ensures r is Ok ==> r->Ok_0.0.x == dec_value(buf@)
        && (exists|k: int| 1 <= k <= 10 && k <= buf@.len() && varint_len(r->Ok_0.0.x) <= k && r->Ok_0.1@ == #[trigger] buf@.skip(k)),
{ unimplemented!() }
struct BytesCodec { }
impl BytesCodec {
//@ extract buffertk/src/lib.rs | impl Unpackable<'a> for &'a [u8] :: fn unpack
//@ ret r
//@ rewrite-re X4 `fn unpack<'b: 'a>\(buf: &'b \[u8\]\) -> Result<\(Self, &'b \[u8\]\), SError>` => `fn unpack<'b>(buf: &'b [u8]) -> Result<(&'b [u8], &'b [u8]), SError>`
//@ rewrite X7 `v64::unpack(buf)?` => `v64_unpack(buf)?`
//@ rewrite X7 `let x: usize = vsz.into();` => `let x: usize = vsz.into_usize();`
//@ post <<
        r is Ok ==> (exists|k: int| 1 <= k <= 10 && k + r->Ok_0.0@.len() <= buf@.len() && r->Ok_0.0@.len() == dec_value(buf@)
            && r->Ok_0.0@ == (#[trigger] buf@.skip(k)).take(r->Ok_0.0@.len() as int) && r->Ok_0.1@ == buf@.skip(k).skip(r->Ok_0.0@.len() as int)),
//@ >>
//@ end
}

// ---------------------------------------------------------------- FieldIterator
//@ extract prototk/src/lib.rs | struct FieldIterator
//@ end
impl<'a, 'b> FieldIterator<'a, 'b> {
//@ extract prototk/src/lib.rs | impl FieldIterator<'a, 'b> :: fn new
//@ ret r
//@ post <<
        r.up.buf@ == buf@,
//@ >>
//@ end
//@ extract prototk/src/lib.rs | impl FieldIterator<'a, 'b> :: fn remain
//@ ret r
//@ post <<
        r@ == self.up.buf@,
//@ >>
//@ end
    // Iterator::next (the trait-impl header is dropped)
//@ extract prototk/src/lib.rs | impl Iterator for FieldIterator<'a, '_> :: fn next
//@ ret r
//@ rewrite-re X4 `-> Option<Self::Item>` => `-> Option<(Tag, &'a [u8])>`
//@ rewrite X7 `let tag: Tag = match self.up.unpack() {` => `let tag: Tag = match self.up.unpack_tag() {`
//@ rewrite-re X7 `let x: v64 = match self\.up\.unpack\(\) \{` => `let x: v64 = match self.up.unpack_v64() {`
//@ rewrite X7 `let sz: usize = x.into();` => `let sz: usize = x.into_usize();`
//@ bodystart <<
        let ghost b0 = self.up.buf@;
        proof { lemma_suffix_refl(b0); }
//@ >>
//@ before `match tag.wire_type {` <<
        let ghost b1 = self.up.buf@;
        let ghost kt: int = choose|k: int| 1 <= k <= 10 && k <= b0.len() && b1 == #[trigger] b0.skip(k);
        proof { lemma_suffix_skip(b0, kt); }
//@ >>
//@ before `Some((tag, &buf[0..x.pack_sz()]))` <<
                proof {
                    let k = choose|k: int| 1 <= k <= 10 && k <= b1.len() && varint_len(x.x) <= k && self.up.buf@ == #[trigger] b1.skip(k);
                    lemma_skip_skip(b0, kt, k); lemma_suffix_skip(b0, kt + k);
                }
//@ >>
//@ after `self.up.advance(8);` <<
                proof { lemma_skip_skip(b0, kt, 8); lemma_suffix_skip(b0, kt + 8); }
//@ >>
//@ after `self.up.advance(4);` <<
                proof { lemma_skip_skip(b0, kt, 4); lemma_suffix_skip(b0, kt + 4); }
//@ >>
//@ before `let sz: usize = x.into_usize();` <<
                let ghost kl: int = choose|k: int| 1 <= k <= 10 && k <= b1.len() && varint_len(x.x) <= k && self.up.buf@ == #[trigger] b1.skip(k);
                proof { lemma_skip_skip(b0, kt, kl); lemma_suffix_skip(b0, kt + kl); assert(b1.skip(kl).len() == b1.len() - kl); assert(buf@ == b1); }
//@ >>
//@ after `self.up.advance(sz);` <<
                proof { lemma_skip_skip(b0, kt + kl, sz as int); lemma_suffix_skip(b0, kt + kl + sz as int); axiom_slice_len(buf); }
//@ >>
//@ post <<
        is_suffix(final(self).up.buf@, old(self).up.buf@),
        r is Some ==> final(self).up.buf@.len() < old(self).up.buf@.len()
            && (exists|a: int| 0 <= a && a + r->Some_0.1@.len() <= old(self).up.buf@.len() && r->Some_0.1@ == (#[trigger] old(self).up.buf@.skip(a)).take(r->Some_0.1@.len() as int)),
//@ >>
//@ end
}

//@ min-verified 13
} // verus!
fn main() {}
