// Unit log_cores (C12, the sequential kernels of the concurrent log: "batches merged by the head thread, one write, then one
// fdatasync covering every waiter").  Extracted from sst/src/log.rs: WriteBatch::merge, WriteCoalescingCore::{can_batch,
// batch, work} and FsyncCoalescingCore::{can_batch, batch, work} -- the three callbacks the coalescing queue
// (sync42::WorkCoalescingQueue, schedule-level, not covered) drives.  Proved, for any batches and any watermarks:
//   * merging concatenates the batches' bytes in order; the `.expect("can_batch should ensure this is impossible")` in batch
//     cannot fire once can_batch has answered true for the same pair;
//   * one work() call appends the merged batch to the log builder exactly once and whole, flushes, and hands every one of
//     the `taken` waiters the same result -- on success the running count of payload bytes written;
//   * the fsync core reports success to its waiters only when the largest watermark among them is covered by a completed
//     fdatasync (`synced`), and `synced` never goes back.
// ASSUMED: LogBuilder::append writes exactly the batch (units log_writer / log_read); the queue calls batch only after
// can_batch returned true for the same arguments; `std::iter::repeat(x).take(n)` is read as "n copies of x" (X21).
use vstd::prelude::*;
verus! {
global size_of usize == 8;

#[verifier::external_body]
struct SError { _p: u8 }
//@ stubs sst/src/lib.rs -> SError
#[verifier::external_body]
#[derive(Clone, Copy)]
struct Setsum { _p: u8 }
impl Setsum {
    // `self.setsum += wb.setsum` (setsum algebra: C14)
    #[verifier::external_body]
    fn add(self, rhs: Setsum) -> (r: Setsum) { unimplemented!() }
}

//@ extract sst/src/log.rs | const BLOCK_BITS
//@ end
//@ extract sst/src/log.rs | const BLOCK_SIZE
//@ post <<
        BLOCK_SIZE == 1048576,
//@ >>
//@ bodystart <<
    proof { assert(1u64 << 20 == 1048576) by (bit_vector); }
//@ >>
//@ end
//@ extract sst/src/log.rs | fn check_batch_size
//@ ret r
//@ post <<
        r is Ok <==> size <= 1048576,
//@ >>
//@ end

struct WriteBatch { buffer: Vec<u8>, setsum: Setsum }
impl WriteBatch {
//@ extract sst/src/log.rs | impl WriteBatch :: fn merge
//@ ret r
//@ rewrite-re? X17 `\b(self\.\w+) \+= (.+);` => `\1 = \1.add(\2);`
//@ pre <<
        // every WriteBatch is at most one block long (put / del / merge refuse to grow it further)
        old(self).buffer@.len() <= 1048576, wb.buffer@.len() <= 1048576,
//@ >>
//@ post <<
        r is Ok <==> old(self).buffer@.len() + wb.buffer@.len() <= 1048576,
        r is Ok ==> final(self).buffer@ == old(self).buffer@ + wb.buffer@,
        r is Err ==> final(self).buffer@ == old(self).buffer@,
//@ >>
//@ end
}

// LogBuilder: what has been appended, and whether everything appended has been handed to the file (flush)
#[verifier::external_body]
struct LogBuilder { _p: u8 }
impl LogBuilder {
    uninterp spec fn batches(&self) -> Seq<Seq<u8>>;
    uninterp spec fn flushed(&self) -> nat;
    #[verifier::external_body]
    fn append(&mut self, write_batch: &WriteBatch) -> (r: Result<(), SError>)
        ensures r is Ok ==> final(self).batches() == old(self).batches().push(write_batch.buffer@) && final(self).flushed() == old(self).flushed(),
            r is Err ==> final(self).flushed() == old(self).flushed(),
    { unimplemented!() }
    #[verifier::external_body]
    fn flush(&mut self) -> (r: Result<(), SError>)
        ensures final(self).batches() == old(self).batches(), r is Ok ==> final(self).flushed() == final(self).batches().len(),
    { unimplemented!() }
}
// `std::iter::repeat(x).take(n)`
struct Repeated<T> { value: T, count: usize }

struct WriteCoalescingCore { builder: LogBuilder, written: u64 }
impl WriteCoalescingCore {
//@ extract sst/src/log.rs | impl WorkCoalescingCore<Arc<WriteBatch>, Result<u64, SError>> for WriteCoalescingCore<W> :: fn can_batch
//@ ret r
//@ rewrite X18 `other: &Arc<WriteBatch>` => `other: &WriteBatch`
//@ post <<
        r == (acc.buffer@.len() + other.buffer@.len() <= 1048576),
//@ >>
//@ end
//@ extract sst/src/log.rs | impl WorkCoalescingCore<Arc<WriteBatch>, Result<u64, SError>> for WriteCoalescingCore<W> :: fn batch
//@ ret r
//@ rewrite X18 `other: Arc<WriteBatch>) -> Self::InputAccumulator` => `other: WriteBatch) -> WriteBatch`
//@ pre <<
        acc.buffer@.len() + other.buffer@.len() <= 1048576,
//@ >>
//@ post <<
        r.buffer@ == acc.buffer@ + other.buffer@,
//@ >>
//@ end
//@ extract sst/src/log.rs | impl WorkCoalescingCore<Arc<WriteBatch>, Result<u64, SError>> for WriteCoalescingCore<W> :: fn work
//@ ret r
//@ rewrite X21 `acc: Self::InputAccumulator) -> Self::OutputIterator<'_>` => `acc: WriteBatch) -> Repeated<Result<u64, SError>>`
//@ rewrite-re X21 `std::iter::repeat\((.+?)\)\.take\(taken\)` => `Repeated { value: \1, count: taken }`
//@ pre <<
        old(self).written + acc.buffer@.len() <= 0xffff_ffff_ffff_ffff,
//@ >>
//@ post <<
        r.count == taken,
        r.value is Ok ==> final(self).builder.batches() == old(self).builder.batches().push(acc.buffer@)
            && final(self).builder.flushed() == final(self).builder.batches().len()
            && r.value->Ok_0 == final(self).written,
        final(self).written == old(self).written + acc.buffer@.len(),
//@ >>
//@ end
}

fn max_u64(a: u64, b: u64) -> (r: u64) ensures r == (if a >= b { a } else { b }) { if a >= b { a } else { b } }
fn min_u64(a: u64, b: u64) -> (r: u64) ensures r == (if a <= b { a } else { b }) { if a <= b { a } else { b } }
type RawFd = i32;
// fdatasync(fd) / fsync(fd) >= 0
#[verifier::external_body]
fn fsync_fd(fd: RawFd) -> (r: bool) { unimplemented!() }
struct FsyncCoalescingCore { raw_builder: RawFd, synced: u64 }
impl FsyncCoalescingCore {
//@ extract sst/src/log.rs | impl WorkCoalescingCore<u64, bool> for FsyncCoalescingCore :: fn can_batch
//@ ret r
//@ end
//@ extract sst/src/log.rs | impl WorkCoalescingCore<u64, bool> for FsyncCoalescingCore :: fn batch
//@ ret r
//@ rewrite X21 `-> Self::InputAccumulator` => `-> u64`
//@ rewrite-re? X4 `std::cmp::max\(` => `max_u64(`
//@ rewrite-re? X4 `std::cmp::min\(` => `min_u64(`
//@ post <<
        r >= acc, r >= seen, r == acc || r == seen,
//@ >>
//@ end
//@ extract sst/src/log.rs | impl WorkCoalescingCore<u64, bool> for FsyncCoalescingCore :: fn work
//@ ret r
//@ rewrite X21 `acc: Self::InputAccumulator) -> Self::OutputIterator<'_>` => `acc: u64) -> Repeated<bool>`
//@ rewrite-re X21 `std::iter::repeat\((.+?)\)\.take\(taken\)` => `Repeated { value: \1, count: taken }`
//@ rewrite-re X7 `(?s)// SAFETY\(rescrv\):  The worst thing.*?let ret = fsync\(self\.raw_builder\);` => `let ret = fsync_fd(self.raw_builder);`
//@ post <<
        r.count == taken,
        // success is reported only when the largest watermark of the waiters is covered by a completed sync
        r.value ==> acc <= final(self).synced,
        final(self).synced >= old(self).synced,
        final(self).synced == old(self).synced || final(self).synced == acc,
        // the watermark moves only on a sync that succeeded
        final(self).synced != old(self).synced ==> r.value,
//@ >>
//@ end
}

//@ min-verified 8
} // verus!
// `Result::expect` wants E: Debug; the formatting itself is never interpreted
impl std::fmt::Debug for SError { fn fmt(&self, _f: &mut std::fmt::Formatter<'_>) -> std::fmt::Result { Ok(()) } }
fn main() {}
