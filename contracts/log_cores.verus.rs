// Unit log_cores (C12, the sequential kernels of the concurrent log: "batches merged by the head thread, one write, then one
// fdatasync covering every waiter").  Extracted from sst/src/log.rs: WriteBatch::merge, WriteCoalescingCore::{can_batch,
// batch, work} and FsyncCoalescingCore::{can_batch, batch, work} -- the three callbacks the coalescing queue
// (sync42::WorkCoalescingQueue, schedule-level, not covered) drives.  Proved, for any batches and any watermarks:
//   * WriteBatch::put / del (verbatim): within the key / value / block limits exactly one entry's bytes are appended and
//     exactly that entry is folded into the batch's setsum; otherwise Err and the buffer is unchanged;
//   * ConcurrentLogBuilder::append (entire): Ok only when this batch was written whole and a completed fdatasync covers it;
//   * merging concatenates the batches' bytes in order; the `.expect("can_batch should ensure this is impossible")` in batch
//     cannot fire once can_batch has answered true for the same pair;
//   * one work() call appends the merged batch to the log builder exactly once and whole, flushes, and hands every one of
//     the `taken` waiters the same result -- on success the running count of payload bytes written;
//   * the fsync core reports success to its waiters only when the largest watermark among them is covered by a completed
//     fdatasync (`synced`), and `synced` never goes back.
// ASSUMED: LogBuilder::append writes exactly the batch (units log_writer / log_read); the queue calls batch only after
// can_batch returned true for the same arguments; `std::iter::repeat(x).take(n)` is read as "n copies of x" (X21).
use vstd::prelude::*;
verus! {
global size_of usize == 8;

#[verifier::external_body]
struct SError { _p: u8 }
//@ stubs sst/src/lib.rs -> SError
//@ stubs sst/src/log.rs -> SError
#[verifier::external_body]
#[derive(Clone, Copy)]
struct Setsum { _p: u8 }
impl Setsum {
    // `self.setsum += wb.setsum` (setsum algebra: C14)
    #[verifier::external_body]
    fn add(self, rhs: Setsum) -> (r: Setsum) { unimplemented!() }
}

//@ extract sst/src/log.rs | const BLOCK_BITS
//@ end
//@ extract sst/src/log.rs | const BLOCK_SIZE
//@ post <<
        BLOCK_SIZE == 1048576,
//@ >>
//@ bodystart <<
    proof { assert(1u64 << 20 == 1048576) by (bit_vector); }
//@ >>
//@ end
//@ extract sst/src/log.rs | fn check_batch_size
//@ ret r
//@ post <<
        r is Ok <==> size <= 1048576,
//@ >>
//@ end

struct WriteBatch { buffer: Vec<u8>, setsum: Setsum }

// ---- WriteBatch::put / del: one entry's bytes appended, whole or not at all
//@ extract sst/src/lib.rs | const MAX_KEY_LEN
//@ post <<
        MAX_KEY_LEN == 16384,
//@ >>
//@ bodystart <<
    proof { assert(1usize << 14 == 16384) by (bit_vector); }
//@ >>
//@ end
//@ extract sst/src/lib.rs | const MAX_VALUE_LEN
//@ post <<
        MAX_VALUE_LEN == 32768,
//@ >>
//@ bodystart <<
    proof { assert(1usize << 15 == 32768) by (bit_vector); }
//@ >>
//@ end
//@ extract sst/src/lib.rs | fn check_key_len
//@ ret r
//@ post <<
        r is Ok <==> key@.len() <= 16384,
//@ >>
//@ end
//@ extract sst/src/lib.rs | fn check_value_len
//@ ret r
//@ post <<
        r is Ok <==> value@.len() <= 32768,
//@ >>
//@ end
// an entry as it is logged, and the bytes the derive-generated codec writes for it (prototk: C15; uninterpreted here)
//@ extract sst/src/lib.rs | struct KeyValueRef
//@ end
enum Item { Put { key: Seq<u8>, ts: u64, val: Seq<u8> }, Del { key: Seq<u8>, ts: u64 } }
uninterp spec fn entry_bytes(i: Item) -> Seq<u8>;
//@ extract sst/src/lib.rs | struct KeyValuePut
//@ end
//@ extract sst/src/lib.rs | struct KeyValueDel
//@ end
//@ extract sst/src/lib.rs | enum KeyValueEntry
//@ end
impl<'a> KeyValueEntry<'a> {
    spec fn item(&self) -> Item {
        match *self {
            KeyValueEntry::Put(p) => Item::Put { key: p.key_frag@, ts: p.timestamp, val: p.value@ },
            KeyValueEntry::Del(d) => Item::Del { key: d.key_frag@, ts: d.timestamp },
        }
    }
    spec fn whole_key(&self) -> bool { match *self { KeyValueEntry::Put(p) => p.shared == 0, KeyValueEntry::Del(d) => d.shared == 0 } }
    spec fn payload(&self) -> int { match *self { KeyValueEntry::Put(p) => (p.key_frag@.len() + p.value@.len()) as int, KeyValueEntry::Del(d) => d.key_frag@.len() as int } }
}
// buffertk::stack_pack(entry): a lazily packed value; what it will write and how long that is
#[verifier::external_body]
struct Packed { _p: u8 }
impl Packed {
    uninterp spec fn bytes(&self) -> Seq<u8>;
    #[verifier::external_body]
    fn pack_sz(&self) -> (r: usize) ensures r == self.bytes().len() { unimplemented!() }
    #[verifier::external_body]
    fn append_to_vec(&self, v: &mut Vec<u8>) ensures final(v)@ == old(v)@ + self.bytes() { unimplemented!() }
}
// ASSUMED of the codec: tag + lengths + varints add at most 64 bytes to the key and value bytes
#[verifier::external_body]
fn stack_pack(e: KeyValueEntry<'_>) -> (r: Packed)
    ensures e.whole_key() ==> r.bytes() == entry_bytes(e.item()), r.bytes().len() <= e.payload() + 64,
{ unimplemented!() }
//@ extract sst/src/log.rs | fn check_batch_size_plus
//@ ret r
//@ rewrite X25 `fn check_batch_size_plus<P: Packable>(buffer: &[u8], pa: P)` => `fn check_batch_size_plus(buffer: &[u8], pa: &Packed)`
//@ pre <<
        buffer@.len() + pa.bytes().len() <= usize::MAX,
//@ >>
//@ post <<
        r is Ok <==> buffer@.len() + pa.bytes().len() <= 1048576,
//@ >>
//@ end
impl Setsum {
    // what has been folded into this setsum (sst::Setsum::put / del: C14)
    uninterp spec fn items(&self) -> Seq<Item>;
    #[verifier::external_body]
    fn put(&mut self, key: &[u8], timestamp: u64, value: &[u8])
        ensures final(self).items() == old(self).items().push(Item::Put { key: key@, ts: timestamp, val: value@ }),
    { unimplemented!() }
    #[verifier::external_body]
    fn del(&mut self, key: &[u8], timestamp: u64)
        ensures final(self).items() == old(self).items().push(Item::Del { key: key@, ts: timestamp }),
    { unimplemented!() }
}
impl WriteBatch {
    // Builder::put / del for WriteBatch (the trait-impl header is dropped).  NOTE (observation, not a property of C12): on the
    // `table full` error path the batch's setsum has already taken the entry that its buffer refuses; every caller
    // in the repository drops the batch on Err.
//@ extract sst/src/log.rs | impl Builder for WriteBatch :: fn put
//@ ret r
//@ rewrite-re? X7 `check_batch_size_plus\(&self\.buffer, &pa\)` => `check_batch_size_plus(self.buffer.as_slice(), &pa)`
//@ pre <<
        old(self).buffer@.len() <= 1048576,
//@ >>
//@ post <<
        r is Ok <==> key@.len() <= 16384 && value@.len() <= 32768 && old(self).buffer@.len() + entry_bytes(Item::Put { key: key@, ts: timestamp, val: value@ }).len() <= 1048576,
        // whole ...
        r is Ok ==> final(self).buffer@ == old(self).buffer@ + entry_bytes(Item::Put { key: key@, ts: timestamp, val: value@ })
            && final(self).setsum.items() == old(self).setsum.items().push(Item::Put { key: key@, ts: timestamp, val: value@ }),
        // ... or not at all
        r is Err ==> final(self).buffer@ == old(self).buffer@,
//@ >>
//@ end
//@ extract sst/src/log.rs | impl Builder for WriteBatch :: fn del
//@ ret r
//@ rewrite-re? X7 `check_batch_size_plus\(&self\.buffer, &pa\)` => `check_batch_size_plus(self.buffer.as_slice(), &pa)`
//@ pre <<
        old(self).buffer@.len() <= 1048576,
//@ >>
//@ post <<
        r is Ok <==> key@.len() <= 16384 && old(self).buffer@.len() + entry_bytes(Item::Del { key: key@, ts: timestamp }).len() <= 1048576,
        r is Ok ==> final(self).buffer@ == old(self).buffer@ + entry_bytes(Item::Del { key: key@, ts: timestamp })
            && final(self).setsum.items() == old(self).setsum.items().push(Item::Del { key: key@, ts: timestamp }),
        r is Err ==> final(self).buffer@ == old(self).buffer@,
//@ >>
//@ end

    // insert: a pair with a value is a put of exactly that value (the empty value included), a pair without one a tombstone
//@ extract sst/src/log.rs | impl WriteBatch :: fn insert
//@ ret r
//@ pre <<
        old(self).buffer@.len() <= 1048576,
//@ >>
//@ post <<
        kvr.value is Some ==> (r is Ok <==> kvr.key@.len() <= 16384 && kvr.value->Some_0@.len() <= 32768 && old(self).buffer@.len() + entry_bytes(Item::Put { key: kvr.key@, ts: kvr.timestamp, val: kvr.value->Some_0@ }).len() <= 1048576),
        kvr.value is Some && r is Ok ==> final(self).buffer@ == old(self).buffer@ + entry_bytes(Item::Put { key: kvr.key@, ts: kvr.timestamp, val: kvr.value->Some_0@ })
            && final(self).setsum.items() == old(self).setsum.items().push(Item::Put { key: kvr.key@, ts: kvr.timestamp, val: kvr.value->Some_0@ }),
        kvr.value is None && r is Ok ==> final(self).buffer@ == old(self).buffer@ + entry_bytes(Item::Del { key: kvr.key@, ts: kvr.timestamp })
            && final(self).setsum.items() == old(self).setsum.items().push(Item::Del { key: kvr.key@, ts: kvr.timestamp }),
        r is Err ==> final(self).buffer@ == old(self).buffer@,
//@ >>
//@ end

//@ extract sst/src/log.rs | impl WriteBatch :: fn merge
//@ ret r
//@ rewrite-re? X17 `\b(self\.\w+) \+= (.+);` => `\1 = \1.add(\2);`
//@ pre <<
        // every WriteBatch is at most one block long (put / del / merge refuse to grow it further)
        old(self).buffer@.len() <= 1048576, wb.buffer@.len() <= 1048576,
//@ >>
//@ post <<
        r is Ok <==> old(self).buffer@.len() + wb.buffer@.len() <= 1048576,
        r is Ok ==> final(self).buffer@ == old(self).buffer@ + wb.buffer@,
        r is Err ==> final(self).buffer@ == old(self).buffer@,
//@ >>
//@ end
}

// LogBuilder: what has been appended, and whether everything appended has been handed to the file (flush)
#[verifier::external_body]
struct LogBuilder { _p: u8 }
impl LogBuilder {
    uninterp spec fn batches(&self) -> Seq<Seq<u8>>;
    uninterp spec fn flushed(&self) -> nat;
    #[verifier::external_body]
    fn append(&mut self, write_batch: &WriteBatch) -> (r: Result<(), SError>)
        ensures r is Ok ==> final(self).batches() == old(self).batches().push(write_batch.buffer@) && final(self).flushed() == old(self).flushed(),
            r is Err ==> final(self).flushed() == old(self).flushed(),
    { unimplemented!() }
    #[verifier::external_body]
    fn flush(&mut self) -> (r: Result<(), SError>)
        ensures final(self).batches() == old(self).batches(), r is Ok ==> final(self).flushed() == final(self).batches().len(),
    { unimplemented!() }
}
// `std::iter::repeat(x).take(n)`
struct Repeated<T> { value: T, count: usize }

struct WriteCoalescingCore { builder: LogBuilder, written: u64 }
impl WriteCoalescingCore {
//@ extract sst/src/log.rs | impl WorkCoalescingCore<Arc<WriteBatch>, Result<u64, SError>> for WriteCoalescingCore<W> :: fn can_batch
//@ ret r
//@ rewrite X18 `other: &Arc<WriteBatch>` => `other: &WriteBatch`
//@ post <<
        r == (acc.buffer@.len() + other.buffer@.len() <= 1048576),
//@ >>
//@ end
//@ extract sst/src/log.rs | impl WorkCoalescingCore<Arc<WriteBatch>, Result<u64, SError>> for WriteCoalescingCore<W> :: fn batch
//@ ret r
//@ rewrite X18 `other: Arc<WriteBatch>) -> Self::InputAccumulator` => `other: WriteBatch) -> WriteBatch`
//@ pre <<
        acc.buffer@.len() + other.buffer@.len() <= 1048576,
//@ >>
//@ post <<
        r.buffer@ == acc.buffer@ + other.buffer@,
//@ >>
//@ end
//@ extract sst/src/log.rs | impl WorkCoalescingCore<Arc<WriteBatch>, Result<u64, SError>> for WriteCoalescingCore<W> :: fn work
//@ ret r
//@ rewrite X21 `acc: Self::InputAccumulator) -> Self::OutputIterator<'_>` => `acc: WriteBatch) -> Repeated<Result<u64, SError>>`
//@ rewrite-re X21 `std::iter::repeat\((.+?)\)\.take\(taken\)` => `Repeated { value: \1, count: taken }`
//@ pre <<
        old(self).written + acc.buffer@.len() <= 0xffff_ffff_ffff_ffff,
//@ >>
//@ post <<
        r.count == taken,
        r.value is Ok ==> final(self).builder.batches() == old(self).builder.batches().push(acc.buffer@)
            && final(self).builder.flushed() == final(self).builder.batches().len()
            && r.value->Ok_0 == final(self).written,
        final(self).written == old(self).written + acc.buffer@.len(),
//@ >>
//@ end
}

fn max_u64(a: u64, b: u64) -> (r: u64) ensures r == (if a >= b { a } else { b }) { if a >= b { a } else { b } }
fn min_u64(a: u64, b: u64) -> (r: u64) ensures r == (if a <= b { a } else { b }) { if a <= b { a } else { b } }
type RawFd = i32;
// fdatasync(fd) / fsync(fd) >= 0
#[verifier::external_body]
fn fsync_fd(fd: RawFd) -> (r: bool) { unimplemented!() }
struct FsyncCoalescingCore { raw_builder: RawFd, synced: u64 }
impl FsyncCoalescingCore {
//@ extract sst/src/log.rs | impl WorkCoalescingCore<u64, bool> for FsyncCoalescingCore :: fn can_batch
//@ ret r
//@ end
//@ extract sst/src/log.rs | impl WorkCoalescingCore<u64, bool> for FsyncCoalescingCore :: fn batch
//@ ret r
//@ rewrite X21 `-> Self::InputAccumulator` => `-> u64`
//@ rewrite-re? X4 `std::cmp::max\(` => `max_u64(`
//@ rewrite-re? X4 `std::cmp::min\(` => `min_u64(`
//@ post <<
        r >= acc, r >= seen, r == acc || r == seen,
//@ >>
//@ end
//@ extract sst/src/log.rs | impl WorkCoalescingCore<u64, bool> for FsyncCoalescingCore :: fn work
//@ ret r
//@ rewrite X21 `acc: Self::InputAccumulator) -> Self::OutputIterator<'_>` => `acc: u64) -> Repeated<bool>`
//@ rewrite-re X21 `std::iter::repeat\((.+?)\)\.take\(taken\)` => `Repeated { value: \1, count: taken }`
//@ rewrite-re X7 `(?s)// SAFETY\(rescrv\):  The worst thing.*?let ret = fsync\(self\.raw_builder\);` => `let ret = fsync_fd(self.raw_builder);`
//@ post <<
        r.count == taken,
        // success is reported only when the largest watermark of the waiters is covered by a completed sync
        r.value ==> acc <= final(self).synced,
        final(self).synced >= old(self).synced,
        final(self).synced == old(self).synced || final(self).synced == acc,
        // the watermark moves only on a sync that succeeded
        final(self).synced != old(self).synced ==> r.value,
//@ >>
//@ end
}


// ---------------------------------------------------------------- ConcurrentLogBuilder::append: the glue between the two queues
// An append is acknowledged only when its batch has been written whole AND a completed fdatasync covers it.
// ASSUMED of sync42::WorkCoalescingQueue::do_work (C18's queue clause, not decided by this family): the caller is handed
// the output the core produced for ITS input.  With the cores' contracts above that is:
//   write queue: Ok(n)  ==> this batch was appended whole, flushed, and n is the running byte count right behind it;
//   fsync queue: true   ==> a completed fdatasync covers at least the watermark handed in.
#[verifier::external_body]
struct WriteQueue { _p: u8 }
#[verifier::external_body]
struct FsyncQueue { _p: u8 }
#[verifier::external_body]
struct PoisonFlag { _p: u8 }
mod atomic { pub enum Ordering { Relaxed, SeqCst } }
impl PoisonFlag {
    #[verifier::external_body]
    fn store(&self, v: bool, o: atomic::Ordering) { unimplemented!() }
}
struct ConcurrentLogBuilder { write_cq: WriteQueue, fsync_cq: FsyncQueue, poison: PoisonFlag }
impl ConcurrentLogBuilder {
    // the log holds `b` whole and `upto` is the running count of payload bytes right behind it
    uninterp spec fn logged(&self, b: Seq<u8>, upto: u64) -> bool;
    // a completed fdatasync covers the first w payload bytes (stays true once true: FsyncCoalescingCore::work, `synced` never goes back)
    uninterp spec fn synced_through(&self, w: u64) -> bool;
}
impl WriteQueue {
    #[verifier::external_body]
    fn do_work(&self, input: WriteBatch, Ghost(owner): Ghost<ConcurrentLogBuilder>) -> (r: Result<u64, SError>)
        ensures r is Ok ==> owner.logged(input.buffer@, r->Ok_0),
    { unimplemented!() }
}
impl FsyncQueue {
    #[verifier::external_body]
    fn do_work(&self, input: u64, Ghost(owner): Ghost<ConcurrentLogBuilder>) -> (r: bool)
        ensures r ==> owner.synced_through(input),
    { unimplemented!() }
}
impl ConcurrentLogBuilder {
//@ extract sst/src/log.rs | impl ConcurrentLogBuilder<W> :: fn append
//@ ret r
//@ rewrite X18 `self.write_cq.do_work(Arc::new(write_batch))` => `self.write_cq.do_work(write_batch, Ghost(*self))`
//@ rewrite-re X18 `self\.fsync_cq\.do_work\((.+?)\)` => `self.fsync_cq.do_work(\1, Ghost(*self))`
//@ bodystart <<
        let ghost batch = write_batch.buffer@;
//@ >>
//@ post <<
        // acknowledged ==> written whole and covered by a completed fdatasync
        r is Ok ==> write_batch.buffer@.len() > 0 && exists|w: u64| #[trigger] self.logged(write_batch.buffer@, w) && self.synced_through(w),
//@ >>
//@ end
}

//@ min-verified 17
} // verus!
// `Result::expect` wants E: Debug; the formatting itself is never interpreted
impl std::fmt::Debug for SError { fn fmt(&self, _f: &mut std::fmt::Formatter<'_>) -> std::fmt::Result { Ok(()) } }
fn main() {}
