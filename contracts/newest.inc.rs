// shared by units sst_lookup-style lookups (copied from contracts/sst_lookup.verus.rs): the newest version of a key not newer
// than t in a sorted table, and the lemma that the first entry not below (k, t) decides it
// ---------------------------------------------------------------- the definition
// index of the newest version of `k` that is not newer than `t`, if any
spec fn is_newest_le(s: Seq<Ent>, k: Seq<u8>, t: u64, i: int) -> bool {
    &&& 0 <= i < s.len() && s[i].key == k && s[i].ts <= t
    &&& forall|j: int| 0 <= j < s.len() && #[trigger] s[j].key == k && s[j].ts <= t ==> s[j].ts <= s[i].ts
}
spec fn no_version_le(s: Seq<Ent>, k: Seq<u8>, t: u64) -> bool {
    forall|j: int| 0 <= j < s.len() ==> !(#[trigger] s[j].key == k && s[j].ts <= t)
}

// in a sorted table the first entry that is not below (k, t) decides the lookup
proof fn lemma_first_ge_decides(s: Seq<Ent>, k: Seq<u8>, t: u64, p: int)
    requires
        sorted(s), 0 <= p <= s.len(),
        forall|i: int| 0 <= i < p ==> kt_lt(#[trigger] s[i].key, s[i].ts, k, t),
        p < s.len() ==> !kt_lt(s[p].key, s[p].ts, k, t),
    ensures
        p < s.len() && s[p].key == k ==> is_newest_le(s, k, t, p),
        !(p < s.len() && s[p].key == k) ==> no_version_le(s, k, t),
{
    if p < s.len() && s[p].key == k {
        assert forall|j: int| 0 <= j < s.len() && #[trigger] s[j].key == k && s[j].ts <= t implies s[j].ts <= s[p].ts by {
            if j < p { assert(kt_lt(s[j].key, s[j].ts, k, t)); }
            else if j > p { assert(kt_lt(s[p].key, s[p].ts, s[j].key, s[j].ts)); }
        }
    } else {
        assert forall|j: int| 0 <= j < s.len() implies !(#[trigger] s[j].key == k && s[j].ts <= t) by {
            if s[j].key == k && s[j].ts <= t {
                if j < p { assert(kt_lt(s[j].key, s[j].ts, k, t)); }
                else {
                    // j >= p, and s[p] is not below (k,t): s[p].key > k or (== k, excluded here) ; s[j] >= s[p]
                    assert(p < s.len());
                    lemma_lex_total(s[p].key, k);
                    if j > p {
                        assert(kt_lt(s[p].key, s[p].ts, s[j].key, s[j].ts));
                        if lex_lt(s[p].key, k) { }
                        else if lex_le(k, s[p].key) && lex_le(s[p].key, k) { lemma_lex_antisym(k, s[p].key); }
                        else { lemma_lex_trans(k, s[p].key, s[j].key); lemma_lex_antisym(k, s[p].key); }
                    }
                }
            }
        }
    }
}
