// Unit cur_lazy (C11, "a lazy cursor behaves as the cursor it opens"): sst/src/lazy_cursor.rs extracted verbatim --
// enum Position, struct LazyCursor, LazyCursor::{new, establish_cursor} and all seven trait methods of
// `impl Cursor for LazyCursor<F>` -- and proved against the Cursor contract (cursor_spec.inc.rs) with
//     ents() = the entries of the table every instantiation opens,   pos() = -1 / len / the opened cursor's position,
// for EVERY table and every sequence of calls (the induction over call programs is the trait contract itself).
// The closure field is used through Verus' FnMut specification: whenever it returns Ok, the cursor it hands out is over
// that table (any position).  The `panic!("this should never happen")` in establish_cursor is an obligation: unreachable.
// ASSUMED: SstCursor satisfies the Cursor contract (proved in unit sst_cursor on the real SstCursor).
use vstd::prelude::*;
verus! {
global size_of usize == 8;

//@ include cursor_spec.inc.rs

// ---------------------------------------------------------------- the cursor being opened
#[verifier::external_body]
struct SstCursor { _p: u8 }
uninterp spec fn sc_ents(c: SstCursor) -> Seq<Ent>;
uninterp spec fn sc_pos(c: SstCursor) -> int;
uninterp spec fn sc_wf_base(c: SstCursor) -> bool;
uninterp spec fn sc_wf(c: SstCursor) -> bool;
uninterp spec fn sc_key(c: SstCursor) -> Option<(Seq<u8>, u64)>;
uninterp spec fn sc_val(c: SstCursor) -> Option<Seq<u8>>;
impl Cursor for SstCursor {
    spec fn ents(&self) -> Seq<Ent> { sc_ents(*self) }
    spec fn pos(&self) -> int { sc_pos(*self) }
    spec fn wf_base(&self) -> bool { sc_wf_base(*self) }
    spec fn wf(&self) -> bool { sc_wf(*self) }
    spec fn key_spec(&self) -> Option<(Seq<u8>, u64)> { sc_key(*self) }
    spec fn val_spec(&self) -> Option<Seq<u8>> { sc_val(*self) }
    #[verifier::external_body]
    proof fn lemma_cursor_laws(&self) { }
    #[verifier::external_body]
    fn seek_to_first(&mut self) -> Result<(), SError> { unimplemented!() }
    #[verifier::external_body]
    fn seek_to_last(&mut self) -> Result<(), SError> { unimplemented!() }
    #[verifier::external_body]
    fn seek(&mut self, key: &[u8]) -> Result<(), SError> { unimplemented!() }
    #[verifier::external_body]
    fn prev(&mut self) -> Result<(), SError> { unimplemented!() }
    #[verifier::external_body]
    fn next(&mut self) -> Result<(), SError> { unimplemented!() }
    #[verifier::external_body]
    fn key(&self) -> Option<KeyRef<'_>> { unimplemented!() }
    #[verifier::external_body]
    fn value(&self) -> Option<&[u8]> { unimplemented!() }
}

//@ extract sst/src/lazy_cursor.rs | enum Position
//@ end
//@ extract sst/src/lazy_cursor.rs | struct LazyCursor
//@ end

// the table the closure opens
uninterp spec fn lazy_table<F>(f: F) -> Seq<Ent>;

impl<F: FnMut() -> Result<SstCursor, SError>> LazyCursor<F> {
    spec fn table(&self) -> Seq<Ent> { lazy_table(self.instantiate) }
    // every successful instantiation hands out a cursor over the table
    spec fn opens(&self) -> bool {
        &&& self.instantiate.requires(())
        &&& forall|r: Result<SstCursor, SError>| #[trigger] self.instantiate.ensures((), r) && r is Ok ==> r->Ok_0.wf_base() && r->Ok_0.ents() == self.table()
    }

//@ extract sst/src/lazy_cursor.rs | impl LazyCursor<F> :: fn new
//@ ret r
//@ pre <<
        instantiate.requires(()), sorted(lazy_table(instantiate)),
        forall|c: Result<SstCursor, SError>| #[trigger] instantiate.ensures((), c) && c is Ok ==> c->Ok_0.wf_base() && c->Ok_0.ents() == lazy_table(instantiate),
//@ >>
//@ post <<
        r.wf(), r.pos() == -1, r.ents() == lazy_table(instantiate),
//@ >>
//@ end

//@ extract sst/src/lazy_cursor.rs | impl LazyCursor<F> :: fn establish_cursor
//@ ret r
//@ pre <<
        old(self).opens(),
//@ >>
//@ post <<
        final(self).instantiate == old(self).instantiate,
        r is Ok ==> r->Ok_0.wf_base() && r->Ok_0.ents() == old(self).table()
            && final(self).position == (Position::Instantiated { cursor: *final(r->Ok_0) }),
//@ >>
//@ end
}

impl<F: FnMut() -> Result<SstCursor, SError>> Cursor for LazyCursor<F> {
    spec fn ents(&self) -> Seq<Ent> { self.table() }
    spec fn pos(&self) -> int {
        match self.position { Position::First => -1, Position::Last => self.table().len() as int, Position::Instantiated { cursor } => cursor.pos() }
    }
    spec fn wf_base(&self) -> bool {
        &&& self.opens() && sorted(self.table())
        &&& match self.position { Position::Instantiated { cursor } => cursor.wf_base() && cursor.ents() == self.table(), _ => true }
    }
    // (the code parks at First / Last whenever the opened cursor runs off an end; the invariant does not insist on it, so
    // that an equivalent representation -- staying instantiated at an end -- is not reported)
    spec fn wf(&self) -> bool {
        &&& self.wf_base()
        &&& match self.position { Position::Instantiated { cursor } => cursor.wf(), _ => true }
    }
    spec fn key_spec(&self) -> Option<(Seq<u8>, u64)> { match self.position { Position::Instantiated { cursor } => cursor.key_spec(), _ => None } }
    spec fn val_spec(&self) -> Option<Seq<u8>> { match self.position { Position::Instantiated { cursor } => cursor.val_spec(), _ => None } }

    proof fn lemma_cursor_laws(&self) {
        match self.position { Position::Instantiated { cursor } => { cursor.lemma_cursor_laws(); }, _ => {} }
    }

//@ extract sst/src/lazy_cursor.rs | impl Cursor for LazyCursor<F> :: fn seek_to_first
//@ end
//@ extract sst/src/lazy_cursor.rs | impl Cursor for LazyCursor<F> :: fn seek_to_last
//@ end
//@ extract sst/src/lazy_cursor.rs | impl Cursor for LazyCursor<F> :: fn seek
//@ end
//@ extract sst/src/lazy_cursor.rs | impl Cursor for LazyCursor<F> :: fn prev
//@ bodystart <<
        proof { self.lemma_cursor_laws(); if let Position::Instantiated { cursor } = &self.position { cursor.lemma_cursor_laws(); } }
//@ >>
//@ end
//@ extract sst/src/lazy_cursor.rs | impl Cursor for LazyCursor<F> :: fn next
//@ bodystart <<
        proof { self.lemma_cursor_laws(); if let Position::Instantiated { cursor } = &self.position { cursor.lemma_cursor_laws(); } }
//@ >>
//@ end
//@ extract sst/src/lazy_cursor.rs | impl Cursor for LazyCursor<F> :: fn key
//@ end
//@ extract sst/src/lazy_cursor.rs | impl Cursor for LazyCursor<F> :: fn value
//@ end
}

//@ min-verified 9
} // verus!
fn main() {}
