// Unit lsmtk_choose (C01, function-local): which compactions may run side by side.  Version::may_choose_compaction,
// CompactionCore::overlapping and Version::emit_compaction extracted entire.  Two compactions that touch a common level in
// a common key range would read the same files and each write its own copy of their data (or one would delete what the
// other is still reading); the store prevents it by checking a candidate against the list of ongoing compactions.  Proved:
//   * overlapping(a, b) is exactly "their level ranges intersect and their key ranges intersect";
//   * may_choose_compaction answers true only for a candidate with two different levels that overlaps NO ongoing
//     compaction (and whose inputs, with those of the ongoing ones, stay below the open-file limit);
//   * emit_compaction appends exactly this compaction's core to the ongoing list and hands the compaction back.
// That every compaction that runs went through may_choose_compaction + emit_compaction under one lock (next_compaction and
// the picker behind it) is not under contract.
// ASSUMED: `<=` on Vec<u8> is a fixed relation on byte strings; the iterator fold over the ongoing inputs is a stub (a
// saturating sum) and the `+` that adds the candidate's own input count to it is read as saturating too (both operands
// count setsums held in memory; the real `+` would panic on overflow in a debug build); the mutex around the list is read
// through (X23); Arc<CompactionCore> is read as CompactionCore and Arc::clone as a copy (X18); clue! tracing is dropped.
use vstd::prelude::*;
verus! {
global size_of usize == 8;

#[verifier::external_body]
struct Setsum { _p: u8 }
#[verifier::external_body]
struct CompactionID { _p: u8 }
struct CompactionCore { compaction_id: CompactionID, lower_level: usize, upper_level: usize, first_key: Vec<u8>, last_key: Vec<u8>, inputs: Vec<Setsum>, size: u64 }
uninterp spec fn le(a: Seq<u8>, b: Seq<u8>) -> bool;
#[verifier::external_body]
fn key_le(a: &Vec<u8>, b: &Vec<u8>) -> (r: bool) ensures r == le(a@, b@) { unimplemented!() }
spec fn conflict(a: CompactionCore, b: CompactionCore) -> bool {
    a.lower_level <= b.upper_level && b.lower_level <= a.upper_level && le(a.first_key@, b.last_key@) && le(b.first_key@, a.last_key@)
}
impl CompactionCore {
//@ extract lsmtk/src/tree/mod.rs | impl CompactionCore :: fn overlapping
//@ ret r
//@ rewrite-re X7 `(\w+)\.first_key <= (\w+)\.last_key` => `key_le(&\1.first_key, &\2.last_key)`
//@ rewrite-re X4 `lhs: &Self, rhs: &Self` => `lhs: &CompactionCore, rhs: &CompactionCore`
//@ post <<
        r == conflict(*lhs, *rhs),
//@ >>
//@ end
}

struct Options { max_open_files: usize }
struct Compaction { core: CompactionCore }
#[verifier::external_body]
fn clone_core(c: &CompactionCore) -> (r: CompactionCore) ensures r == *c { unimplemented!() }
// ongoing.iter().map(|x| x.inputs.len()).fold(0, usize::saturating_add)
#[verifier::external_body]
fn ongoing_inputs(l: &Vec<CompactionCore>) -> (r: usize) { unimplemented!() }
struct Version { options: Options, ongoing: Vec<CompactionCore> }
impl Version {
//@ extract lsmtk/src/tree/mod.rs | impl Version :: fn may_choose_compaction
//@ ret r
//@ rewrite-re X23 `let ongoing = self\.ongoing\.lock\(\)\.unwrap\(\);` => `let ongoing = &self.ongoing;`
//@ rewrite-re X7 `(?s)ongoing\s*\.iter\(\)\s*\.map\(\|x\| x\.inputs\.len\(\)\)\s*\.fold\(0, usize::saturating_add\)` => `ongoing_inputs(ongoing)`
//@ rewrite-re X13 `for ongoing in ongoing\.iter\(\) \{` => `for oi in 0..ongoing.len() { let ongoing = &ongoing[oi];`
//@ rewrite-re? X4 `core\.inputs\.len\(\)\s*\+ ongoing_inputs\(ongoing\)` => `core.inputs.len().saturating_add(ongoing_inputs(ongoing))`
//@ post <<
        r ==> core.lower_level != core.upper_level
            && forall|k: int| 0 <= k < self.ongoing@.len() ==> !conflict(#[trigger] self.ongoing@[k], *core),
//@ >>
//@ loop `for oi in` <<
            invariant *ongoing == self.ongoing, /* contract-inv */
                forall|k: int| 0 <= k < oi ==> !conflict(#[trigger] self.ongoing@[k], *core), /* contract-inv */
//@ >>
//@ end

//@ extract lsmtk/src/tree/mod.rs | impl Version :: fn emit_compaction
//@ ret r
//@ rewrite-re X20 `fn emit_compaction\(\s*&self,` => `fn emit_compaction(&mut self,`
//@ rewrite-re? X3 `(?s)clue!\(TRACING, INFO, \{.*?\}\);\n` => ``
//@ rewrite-re? X23 `(?s)self\.ongoing\s*\.lock\(\)\s*\.unwrap\(\)\s*\.push\(Arc::clone\(&compaction\.core\)\);` => `self.ongoing.push(clone_core(&compaction.core));`
//@ post <<
        r is Some && r->Some_0 == compaction && final(self).ongoing@ == old(self).ongoing@.push(compaction.core),
//@ >>
//@ end
}

//@ min-verified 3
} // verus!
fn main() {}
