// Unit mani_edits (C13, the set-level half only): what an edit does to a manifest's state, what a roll-over snapshot is,
// and what reopening computes -- mani/src/lib.rs: Manifest::apply_edit, Manifest::to_edit, Manifest::read_mani, extracted
// entire and proved for any number of strings, infos and edits:
//   * apply_edit: strs' = (strs - removed) + added -- removals first -- and info' = info overridden by the edit's infos;
//   * to_edit: the snapshot edit adds exactly the strings and carries exactly the infos of the state; its two
//     `.expect("previously added … should always add")` cannot fire because no stored string holds a line feed;
//     applied to the empty state it gives the state back (lemma_snapshot_restores): a rolled-over fragment starts with the
//     complete state at its creation;
//   * rollover (entire, over a ghost file system): the old live file is kept under the next fresh backup number, the new live
//     file holds exactly the snapshot of the complete state, memory is unchanged, and a live file exists on every path;
//   * read_mani: reopening yields exactly the fold of apply_edit over the edits the file holds, in order, from the empty
//     state -- or an error, never a state in which an edit is applied in part (an edit is applied by one call).
// This is what units lsmtk_balance (C04) and lsmtk_orphans (C08) assume of the manifest.
// ASSUMED: BTreeSet<String> / BTreeMap<char, String> as a set / a map whose iteration visits exactly its elements (X13:
// iterator loops as index loops over that enumeration); what ManifestIterator yields is the file's sequence of edits.
// NOT decided: the text format (CRC lines, separator: String / format! are outside both verifiers), that what _apply writes
// is the edit it applied, atomicity and durability of an edit across a crash, the lock file.
use vstd::prelude::*;
verus! {
global size_of usize == 8;

#[verifier::external_body]
struct SError { _p: u8 }
type S = Seq<char>;
uninterp spec fn has_line_feed(s: S) -> bool;
// &str / String
#[verifier::external_body]
struct Str { _p: u8 }
impl Str { uninterp spec fn view(&self) -> S; }
// BTreeSet<String>
#[verifier::external_body]
struct StrSet { _p: u8 }
impl StrSet {
    uninterp spec fn view(&self) -> ISet<S>;
    #[verifier::external_body]
    fn new() -> (r: StrSet) ensures r@ == ISet::<S>::empty() { unimplemented!() }
    #[verifier::external_body]
    fn insert(&mut self, s: Str) -> (r: bool) ensures final(self)@ == old(self)@.insert(s@) { unimplemented!() }
    #[verifier::external_body]
    fn remove(&mut self, s: &Str) -> (r: bool) ensures final(self)@ == old(self)@.remove(s@) { unimplemented!() }
    // `.iter()`: the elements, each once
    #[verifier::external_body]
    fn items(&self) -> (r: Vec<Str>) ensures forall|x: S| self@.contains(x) <==> exists|i: int| 0 <= i < r@.len() && (#[trigger] r@[i])@ == x { unimplemented!() }
}
// BTreeMap<char, String>
#[verifier::external_body]
struct InfoMap { _p: u8 }
impl InfoMap {
    uninterp spec fn view(&self) -> Map<char, S>;
    #[verifier::external_body]
    fn new() -> (r: InfoMap) ensures r@ == Map::<char, S>::empty() { unimplemented!() }
    #[verifier::external_body]
    fn insert(&mut self, c: char, s: Str) -> (r: Option<Str>) ensures final(self)@ == old(self)@.insert(c, s@) { unimplemented!() }
    // `.iter()`: the pairs, each key once
    #[verifier::external_body]
    fn pairs(&self) -> (r: Vec<(char, Str)>)
        ensures forall|i: int| 0 <= i < r@.len() ==> self@.dom().contains((#[trigger] r@[i]).0) && self@[r@[i].0] == r@[i].1@,
            forall|c: char| self@.dom().contains(c) ==> exists|i: int| 0 <= i < r@.len() && (#[trigger] r@[i]).0 == c,
            forall|i: int, j: int| 0 <= i < j < r@.len() ==> r@[i].0 != r@[j].0,
    { unimplemented!() }
}
#[verifier::external_body]
fn string_from(s: &Str) -> (r: Str) ensures r@ == s@ { unimplemented!() }
#[verifier::external_body]
fn str_clone(s: &Str) -> (r: Str) ensures r@ == s@ { unimplemented!() }

struct Edit { add_strs: StrSet, rm_strs: StrSet, info: InfoMap }
impl Edit {
    spec fn wf(&self) -> bool {
        &&& forall|x: S| self.add_strs@.contains(x) ==> !has_line_feed(x)
        &&& forall|c: char| self.info@.dom().contains(c) ==> !has_line_feed(#[trigger] self.info@[c])
    }
    #[verifier::external_body]
    fn default() -> (r: Edit) ensures r.add_strs@ == ISet::<S>::empty(), r.rm_strs@ == ISet::<S>::empty(), r.info@ == Map::<char, S>::empty() { unimplemented!() }
    // Edit::add / Edit::info (check_str: a line feed is refused, anything else accepted)
    #[verifier::external_body]
    fn add(&mut self, s: &Str) -> (r: Result<(), SError>)
        ensures r is Ok <==> !has_line_feed(s@),
            r is Ok ==> final(self).add_strs@ == old(self).add_strs@.insert(s@) && final(self).rm_strs@ == old(self).rm_strs@ && final(self).info@ == old(self).info@,
    { unimplemented!() }
    #[verifier::external_body]
    fn rm(&mut self, s: &Str) -> (r: Result<(), SError>)
        ensures r is Ok <==> !has_line_feed(s@),
            r is Ok ==> final(self).rm_strs@ == old(self).rm_strs@.insert(s@) && final(self).add_strs@ == old(self).add_strs@ && final(self).info@ == old(self).info@,
    { unimplemented!() }
    #[verifier::external_body]
    fn info(&mut self, c: char, s: &Str) -> (r: Result<(), SError>)
        ensures !has_line_feed(s@) && c != '\n' ==> r is Ok,
            r is Ok ==> final(self).info@ == old(self).info@.insert(c, s@) && final(self).add_strs@ == old(self).add_strs@ && final(self).rm_strs@ == old(self).rm_strs@,
    { unimplemented!() }
}

// the state after one edit: removals first, then additions; infos overridden
spec fn apply_strs(strs: ISet<S>, rm: ISet<S>, add: ISet<S>) -> ISet<S> { ISet::new(|x: S| (strs.contains(x) && !rm.contains(x)) || add.contains(x)) }
spec fn apply_info(info: Map<char, S>, e: Map<char, S>) -> Map<char, S> { info.union_prefer_right(e) }

struct Manifest { }
impl Manifest {
//@ extract mani/src/lib.rs | impl Manifest :: fn apply_edit
//@ rewrite X7 `strs: &mut BTreeSet<String>, info: &mut BTreeMap<char, String>` => `strs: &mut StrSet, info: &mut InfoMap`
//@ rewrite X13 `for path in edit.rm_strs.iter() {` => `let rmv = edit.rm_strs.items(); for ridx in 0..rmv.len() { let path = &rmv[ridx];`
//@ rewrite X13 `for path in edit.add_strs.iter() {` => `let addv = edit.add_strs.items(); for aidx in 0..addv.len() { let path = &addv[aidx];`
//@ rewrite X13 `for (key, value) in edit.info.iter() {` => `let infov = edit.info.pairs(); for iidx in 0..infov.len() { let key = &infov[iidx].0; let value = &infov[iidx].1;`
//@ rewrite X7 `String::from(path)` => `string_from(path)`
//@ rewrite X12 `value.clone()` => `str_clone(value)`
//@ post <<
        final(strs)@ =~= apply_strs(old(strs)@, edit.rm_strs@, edit.add_strs@),
        final(info)@ =~= apply_info(old(info)@, edit.info@),
//@ >>
//@ loop `for ridx in` <<
            invariant forall|x: S| edit.rm_strs@.contains(x) <==> exists|i: int| 0 <= i < rmv@.len() && (#[trigger] rmv@[i])@ == x,
                *info == *old(info),
                /* contract-inv */ forall|x: S| strs@.contains(x) <==> (old(strs)@.contains(x) && !(exists|i: int| 0 <= i < ridx && (#[trigger] rmv@[i])@ == x)),
//@ >>
//@ loop `for aidx in` <<
            invariant forall|x: S| edit.add_strs@.contains(x) <==> exists|i: int| 0 <= i < addv@.len() && (#[trigger] addv@[i])@ == x,
                *info == *old(info),
                /* contract-inv */ forall|x: S| strs@.contains(x) <==> ((old(strs)@.contains(x) && !edit.rm_strs@.contains(x)) || (exists|i: int| 0 <= i < aidx && (#[trigger] addv@[i])@ == x)),
//@ >>
//@ loop `for iidx in` <<
            invariant strs@ =~= apply_strs(old(strs)@, edit.rm_strs@, edit.add_strs@),
                forall|i: int| 0 <= i < infov@.len() ==> edit.info@.dom().contains((#[trigger] infov@[i]).0) && edit.info@[infov@[i].0] == infov@[i].1@,
                forall|c: char| edit.info@.dom().contains(c) ==> exists|i: int| 0 <= i < infov@.len() && (#[trigger] infov@[i]).0 == c,
                forall|i: int, j: int| 0 <= i < j < infov@.len() ==> infov@[i].0 != infov@[j].0,
                /* contract-inv */ forall|c: char| info@.dom().contains(c) <==> (old(info)@.dom().contains(c) || (exists|i: int| 0 <= i < iidx && (#[trigger] infov@[i]).0 == c)),
                /* contract-inv */ forall|c: char| info@.dom().contains(c) ==> info@[c] == (if exists|i: int| 0 <= i < iidx && (#[trigger] infov@[i]).0 == c { edit.info@[c] } else { old(info)@[c] }),
//@ >>
//@ end

//@ extract mani/src/lib.rs | impl Manifest :: fn to_edit
//@ ret r
//@ rewrite X7 `strs: &BTreeSet<String>, info: &BTreeMap<char, String>` => `strs: &StrSet, info: &InfoMap`
//@ rewrite-re? X13 `for s in strs\.iter\(\) \{` => `let sv = strs.items(); for sidx in 0..sv.len() { let s = &sv[sidx];`
//@ rewrite-re? X13 `for \(c, s\) in info\.iter\(\) \{` => `let iv = info.pairs(); for iidx in 0..iv.len() { let c = &iv[iidx].0; let s = &iv[iidx].1;`
//@ pre <<
        // the manifest's own invariant: nothing stored holds a line feed (everything got in through Edit::add / Edit::info)
        forall|x: S| strs@.contains(x) ==> !has_line_feed(x),
        forall|c: char| info@.dom().contains(c) ==> !has_line_feed(#[trigger] info@[c]) && c != '\n',
//@ >>
//@ post <<
        r.add_strs@ =~= strs@, r.rm_strs@ =~= ISet::<S>::empty(), r.info@ =~= info@,
//@ >>
//@ loop? `for sidx in` <<
            invariant forall|x: S| strs@.contains(x) <==> exists|i: int| 0 <= i < sv@.len() && (#[trigger] sv@[i])@ == x,
                forall|x: S| strs@.contains(x) ==> !has_line_feed(x),
                edit.rm_strs@ == ISet::<S>::empty(), edit.info@ == Map::<char, S>::empty(),
                /* contract-inv */ forall|x: S| edit.add_strs@.contains(x) <==> exists|i: int| 0 <= i < sidx && (#[trigger] sv@[i])@ == x,
//@ >>
//@ loop? `for iidx in` <<
            invariant edit.add_strs@ =~= strs@, edit.rm_strs@ == ISet::<S>::empty(),
                forall|c: char| info@.dom().contains(c) ==> !has_line_feed(#[trigger] info@[c]) && c != '\n',
                forall|i: int| 0 <= i < iv@.len() ==> info@.dom().contains((#[trigger] iv@[i]).0) && info@[iv@[i].0] == iv@[i].1@,
                forall|c: char| info@.dom().contains(c) ==> exists|i: int| 0 <= i < iv@.len() && (#[trigger] iv@[i]).0 == c,
                forall|i: int, j: int| 0 <= i < j < iv@.len() ==> iv@[i].0 != iv@[j].0,
                /* contract-inv */ forall|c: char| edit.info@.dom().contains(c) <==> exists|i: int| 0 <= i < iidx && (#[trigger] iv@[i]).0 == c,
                /* contract-inv */ forall|c: char| edit.info@.dom().contains(c) ==> edit.info@[c] == info@[c],
//@ >>
//@ startloop? `for sidx in` <<
            proof { assert(strs@.contains(sv@[sidx as int]@)); }
//@ >>
//@ end
}


// ---- reopening: the fold of apply_edit over the file's edits
struct EditView { rm: ISet<S>, add: ISet<S>, info: Map<char, S> }
spec fn state_after(edits: Seq<EditView>, n: int) -> (ISet<S>, Map<char, S>)
    decreases n
{
    if n <= 0 { (ISet::<S>::empty(), Map::<char, S>::empty()) }
    else { (apply_strs(state_after(edits, n - 1).0, edits[n - 1].rm, edits[n - 1].add), apply_info(state_after(edits, n - 1).1, edits[n - 1].info)) }
}
// a roll-over snapshot applied to the empty state gives the state back
proof fn lemma_snapshot_restores(strs: ISet<S>, info: Map<char, S>)
    ensures apply_strs(ISet::<S>::empty(), ISet::<S>::empty(), strs) =~= strs, apply_info(Map::<char, S>::empty(), info) =~= info,
{ }
// ... and applied to the state it was taken from it changes nothing (rollover applies it to the live manifest as well)
proof fn lemma_snapshot_idempotent(strs: ISet<S>, info: Map<char, S>)
    ensures apply_strs(strs, ISet::<S>::empty(), strs) =~= strs, apply_info(info, info) =~= info,
{ }
#[verifier::external_body]
struct MPath { _p: u8 }
#[verifier::external_body]
struct ManifestIterator { _p: u8 }
impl ManifestIterator {
    uninterp spec fn edits(&self) -> Seq<EditView>;
    #[verifier::external_body]
    fn open(p: &MPath) -> (r: Result<ManifestIterator, SError>) { unimplemented!() }
    #[verifier::external_body]
    fn len(&self) -> (r: usize) ensures r == self.edits().len() { unimplemented!() }
    #[verifier::external_body]
    fn edit_at(&self, j: usize) -> (r: Result<Edit, SError>)
        requires j < self.edits().len(),
        ensures r is Ok ==> r->Ok_0.rm_strs@ == self.edits()[j as int].rm && r->Ok_0.add_strs@ == self.edits()[j as int].add && r->Ok_0.info@ == self.edits()[j as int].info,
    { unimplemented!() }
}
impl Manifest {
//@ extract mani/src/lib.rs | impl Manifest :: fn read_mani
//@ ret r
//@ rewrite-re X7 `(?s)fn read_mani<P: AsRef<Path>>\(\s*path: P,\s*\) -> Result<\(BTreeSet<String>, BTreeMap<char, String>\), SError>` => `fn read_mani(path: &MPath) -> Result<(StrSet, InfoMap, Ghost<Seq<EditView>>), SError>`
//@ rewrite X7 `BTreeSet::new()` => `StrSet::new()`
//@ rewrite X7 `BTreeMap::new()` => `InfoMap::new()`
//@ rewrite X13 `for edit in iter {` => `let mut eidx: usize = 0; while eidx < iter.len() { let edit = iter.edit_at(eidx); eidx += 1;`
//@ rewrite X7 `Ok((strs, info))` => `Ok((strs, info, Ghost(iter.edits())))`
//@ post <<
        // reopening computes the state after all the edits the file holds, applied whole and in order
        r is Ok ==> r->Ok_0.0@ =~= state_after(r->Ok_0.2@, r->Ok_0.2@.len() as int).0 && r->Ok_0.1@ =~= state_after(r->Ok_0.2@, r->Ok_0.2@.len() as int).1,
//@ >>
//@ loop `while eidx <` <<
            invariant eidx <= iter.edits().len(), /* contract-inv */ strs@ =~= state_after(iter.edits(), eidx as int).0, /* contract-inv */ info@ =~= state_after(iter.edits(), eidx as int).1,
            decreases iter.edits().len() - eidx,
//@ >>
//@ end
}


// ---- roll-over: the old file is kept under the next backup number, the new file starts with the whole state
// A ghost file system holds, per name, the edits a manifest file contains.
enum Name { Live, Temporary, Backup(u64) }
#[verifier::external_body]
struct FPath { _p: u8 }
impl FPath { uninterp spec fn name(&self) -> Name; }
struct Disk { files: Map<Name, Seq<EditView>> }
#[verifier::external_body]
struct Root { _p: u8 }
#[verifier::external_body]
fn manifest_path(root: &Root) -> (r: FPath) ensures r.name() == Name::Live { unimplemented!() }
#[verifier::external_body]
fn temporary_path(root: &Root) -> (r: FPath) ensures r.name() == Name::Temporary { unimplemented!() }
#[verifier::external_body]
fn backup_path(root: &Root, idx: u64) -> (r: FPath) ensures r.name() == Name::Backup(idx) { unimplemented!() }
struct LiveManifest { root: Root, strs: StrSet, info: InfoMap, last_rollover: u64, disk: Tracked<Disk> }
impl LiveManifest {
    spec fn view_edit(e: &Edit) -> EditView { EditView { rm: e.rm_strs@, add: e.add_strs@, info: e.info@ } }
    spec fn stored_clean(&self) -> bool {
        &&& forall|x: S| self.strs@.contains(x) ==> !has_line_feed(x)
        &&& forall|c: char| self.info@.dom().contains(c) ==> !has_line_feed(#[trigger] self.info@[c]) && c != '\n'
    }
    // std::fs::hard_link(from, to): fails if `to` exists, otherwise `to` holds what `from` holds
    #[verifier::external_body]
    fn hard_link(&mut self, from: FPath, to: &FPath) -> (r: Result<(), SError>)
        ensures final(self).strs == old(self).strs, final(self).info == old(self).info, final(self).last_rollover == old(self).last_rollover,
            r is Ok ==> !old(self).disk@.files.dom().contains(to.name()) && old(self).disk@.files.dom().contains(from.name())
                && final(self).disk@.files == old(self).disk@.files.insert(to.name(), old(self).disk@.files[from.name()]),
            r is Err ==> final(self).disk@ == old(self).disk@,
    { unimplemented!() }
    #[verifier::external_body]
    fn exists(&self, p: &FPath) -> (r: bool) ensures r == self.disk@.files.dom().contains(p.name()) { unimplemented!() }
    #[verifier::external_body]
    fn remove_file(&mut self, p: &FPath) -> (r: Result<(), SError>)
        ensures final(self).strs == old(self).strs, final(self).info == old(self).info, final(self).last_rollover == old(self).last_rollover,
            r is Ok ==> final(self).disk@.files == old(self).disk@.files.remove(p.name()), r is Err ==> final(self).disk@ == old(self).disk@,
    { unimplemented!() }
    // std::fs::rename(from, to): `to` is replaced by what `from` held, `from` is gone
    #[verifier::external_body]
    fn rename(&mut self, from: &FPath, to: FPath) -> (r: Result<(), SError>)
        ensures final(self).strs == old(self).strs, final(self).info == old(self).info, final(self).last_rollover == old(self).last_rollover,
            r is Ok ==> old(self).disk@.files.dom().contains(from.name())
                && final(self).disk@.files == old(self).disk@.files.insert(to.name(), old(self).disk@.files[from.name()]).remove(from.name()),
            r is Err ==> final(self).disk@ == old(self).disk@,
    { unimplemented!() }
    // Manifest::_apply(output, edit, allow_rollover = false): the edit is applied to the in-memory state (apply_edit, above) and
    // appended to the file `output` (created if absent) -- the formatting and the write are not under contract
    #[verifier::external_body]
    fn _apply(&mut self, output: &FPath, edit: Edit, allow_rollover: bool) -> (r: Result<(), SError>)
        requires !allow_rollover,
        ensures final(self).last_rollover == old(self).last_rollover,
            final(self).strs@ =~= apply_strs(old(self).strs@, edit.rm_strs@, edit.add_strs@), final(self).info@ =~= apply_info(old(self).info@, edit.info@),
            r is Ok ==> final(self).disk@.files == old(self).disk@.files.insert(output.name(),
                (if old(self).disk@.files.dom().contains(output.name()) { old(self).disk@.files[output.name()] } else { Seq::<EditView>::empty() }).push(Self::view_edit(&edit))),
            // a failed write touches no other file
            forall|n: Name| n != output.name() ==> #[trigger] final(self).disk@.files.dom().contains(n) == old(self).disk@.files.dom().contains(n),
            forall|n: Name| n != output.name() && old(self).disk@.files.dom().contains(n) ==> #[trigger] final(self).disk@.files[n] == old(self).disk@.files[n],
    { unimplemented!() }
    #[verifier::external_body]
    fn poison(&mut self, r: Result<(), SError>) -> (q: Result<(), SError>)
        ensures (q is Ok) == (r is Ok), final(self).strs == old(self).strs, final(self).info == old(self).info, final(self).last_rollover == old(self).last_rollover, final(self).disk == old(self).disk,
    { unimplemented!() }
    fn to_edit(strs: &StrSet, info: &InfoMap) -> (r: Edit)
        requires forall|x: S| strs@.contains(x) ==> !has_line_feed(x), forall|c: char| info@.dom().contains(c) ==> !has_line_feed(#[trigger] info@[c]) && c != '\n',
        ensures r.add_strs@ =~= strs@, r.rm_strs@ =~= ISet::<S>::empty(), r.info@ =~= info@,
    { Manifest::to_edit(strs, info) }

//@ extract mani/src/lib.rs | impl Manifest :: fn rollover
//@ ret r
//@ rewrite-re? X7 `\bMANIFEST\(&self\.root\)` => `manifest_path(&self.root)`
//@ rewrite-re? X7 `\bBACKUP\(&self\.root, (\w+)\)` => `backup_path(&self.root, \1)`
//@ rewrite-re? X7 `\bTEMPORARY\(&self\.root\)` => `temporary_path(&self.root)`
//@ rewrite-re? X7 `\bhard_link\((\w+\(&self\.root(?:, \w+)?\)), (\w+)\)` => `{ let from = \1; self.hard_link(from, &\2) }`
//@ rewrite-re? X7 `\brename\(&(\w+), (\w+\(&self\.root(?:, \w+)?\))\)` => `{ let to = \2; self.rename(&\1, to) }`
//@ rewrite-re? X7 `\b(\w+)\.exists\(\)` => `self.exists(&\1)`
//@ rewrite-re? X7 `\bremove_file\(&(\w+)\)` => `self.remove_file(&\1)`
//@ rewrite-re? X7 `\bself\.poison\((.+)\)\?` => `{ let res = \1; self.poison(res)? }`
//@ pre <<
        old(self).stored_clean(), old(self).last_rollover < 0xffff_ffff_ffff_ffff,
        old(self).disk@.files.dom().contains(Name::Live),
//@ >>
//@ post <<
        // the state in memory is what it was; backup numbers are used once
        final(self).strs@ =~= old(self).strs@, final(self).info@ =~= old(self).info@, r is Ok ==> final(self).last_rollover == old(self).last_rollover + 1,
        // on success the old file lives on under the next backup number and the live file starts -- and so far ends --
        // with the complete state: the fragments chain without a gap
        r is Ok ==> final(self).disk@.files.dom().contains(Name::Backup(old(self).last_rollover))
            && final(self).disk@.files[Name::Backup(old(self).last_rollover)] == old(self).disk@.files[Name::Live]
            && final(self).disk@.files.dom().contains(Name::Live)
            && final(self).disk@.files[Name::Live].len() == 1
            && final(self).disk@.files[Name::Live][0].add =~= old(self).strs@ && final(self).disk@.files[Name::Live][0].rm =~= ISet::<S>::empty()
            && final(self).disk@.files[Name::Live][0].info =~= old(self).info@,
        // whatever happens, the live file is never left absent: it is the old one or the new one
        final(self).disk@.files.dom().contains(Name::Live),
//@ >>
//@ end
}

//@ min-verified 6
} // verus!
impl std::fmt::Debug for SError { fn fmt(&self, _f: &mut std::fmt::Formatter<'_>) -> std::fmt::Result { Ok(()) } }
fn main() {}
