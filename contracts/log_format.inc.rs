// The on-disk format of the write-ahead log, shared by the writer unit (log_writer) and the reader unit (log_read).
spec const B: int = 1048576;
spec fn nb_of(o: int) -> int { (o / B + 1) * B }
// ---------------------------------------------------------------- the format
uninterp spec fn hdr(size: u64, discriminant: u32, crc: u32) -> Seq<u8>;
uninterp spec fn crc_of(b: Seq<u8>) -> u32;
spec fn zeros(n: int) -> Seq<u8> { Seq::new(n as nat, |i: int| 0u8) }
spec fn hdr_ok(size: u64, discriminant: u32, crc: u32) -> bool { 3 <= hdr(size, discriminant, crc).len() <= 19 }
// ASSUMED (discharged on the compiled derive code by Kani unit sst_log: header_size_in_range): size byte + 2..=18 bytes
#[verifier::external_body]
proof fn axiom_hdr_len(size: u64, discriminant: u32, crc: u32)
    ensures hdr_ok(size, discriminant, crc)
{ }

// p bytes of zero padding are legal at offset o only to reach the next boundary, and never more than 19
spec fn pad_ok(o: int, p: int) -> bool { p == 0 || (0 < p <= 19 && o % B != 0 && (o + p) % B == 0) }
spec fn whole_layout(o: int, buf: Seq<u8>, a: Seq<u8>, p: int) -> bool {
    let h = hdr(buf.len() as u64, 1, crc_of(buf));
    &&& pad_ok(o, p)
    &&& a == zeros(p) + h + buf
    &&& o + p + h.len() + buf.len() <= nb_of(o + p)
}
spec fn split_layout(o: int, buf: Seq<u8>, a: Seq<u8>, p: int, f: int, q: int) -> bool {
    let first = buf.subrange(0, f); let second = buf.subrange(f, buf.len() as int);
    let h1 = hdr(f as u64, 2, crc_of(first)); let h2 = hdr((buf.len() - f) as u64, 3, crc_of(second));
    &&& pad_ok(o, p) && 0 <= f <= buf.len() && 0 <= q <= 19
    &&& a == zeros(p) + h1 + first + zeros(q) + h2 + second
    &&& (o + p + h1.len() + f + q) == nb_of(o + p)
}
spec fn appended_ok(o: int, buf: Seq<u8>, a: Seq<u8>) -> bool {
    (exists|p: int| #[trigger] whole_layout(o, buf, a, p)) || (exists|p: int, f: int, q: int| #[trigger] split_layout(o, buf, a, p, f, q))
}
