// Unit cur_pruning (C11, and the snapshot clause of C03/C07): PruningCursor<C> over ANY child cursor
// obeying the Cursor contract, tables of EVERY size.  "a pruning cursor at timestamp t yields, per key,
// the newest version not newer than t unless it is a tombstone" (with_tombstones: even when it is).
//   ents() = the child's entries that are visible at (t, retain_tombstones), in order;
//   rest states: child before-first with no skip key | child after-last | child ON a visible entry whose
//   key is the skip key.  Every trait method of the real impl (extracted each run) is proved against the
//   trait contract from an arbitrary rest state.
use vstd::prelude::*;
verus! {
global size_of usize == 8;

//@ include cursor_spec.inc.rs

// ---------------------------------------------------------------- visibility
spec fn vis(s: Seq<Ent>, t: u64, keep: bool, i: int) -> bool {
    &&& 0 <= i < s.len() && s[i].ts <= t
    &&& forall|j: int| 0 <= j < i && #[trigger] s[j].key == s[i].key ==> s[j].ts > t
    &&& (keep || s[i].val is Some)
}
// the visible entries among the first k
spec fn vp(s: Seq<Ent>, t: u64, keep: bool, k: int) -> Seq<Ent>
    decreases k
{
    if k <= 0 { Seq::<Ent>::empty() }
    else if vis(s, t, keep, k - 1) { vp(s, t, keep, k - 1).push(s[k - 1]) }
    else { vp(s, t, keep, k - 1) }
}
spec fn rank(s: Seq<Ent>, t: u64, keep: bool, k: int) -> int { vp(s, t, keep, k).len() as int }

proof fn lemma_rank_mono(s: Seq<Ent>, t: u64, keep: bool, a: int, b: int)
    requires 0 <= a <= b
    ensures rank(s, t, keep, a) <= rank(s, t, keep, b), rank(s, t, keep, b) <= rank(s, t, keep, a) + (b - a),
        vp(s, t, keep, a) =~= vp(s, t, keep, b).subrange(0, rank(s, t, keep, a)),
    decreases b - a
{
    if a < b {
        lemma_rank_mono(s, t, keep, a, b - 1);
    }
}
// no visible entry in [a, b)  ==>  same prefix
proof fn lemma_rank_flat(s: Seq<Ent>, t: u64, keep: bool, a: int, b: int)
    requires 0 <= a <= b, forall|j: int| a <= j < b ==> !vis(s, t, keep, j)
    ensures vp(s, t, keep, b) == vp(s, t, keep, a)
    decreases b - a
{
    if a < b { lemma_rank_flat(s, t, keep, a, b - 1); }
}
// every member of the prefix comes from a visible child index below k, at its rank
proof fn lemma_vp_members(s: Seq<Ent>, t: u64, keep: bool, k: int, r: int) -> (j: int)
    requires 0 <= k <= s.len(), 0 <= r < rank(s, t, keep, k)
    ensures 0 <= j < k, vis(s, t, keep, j), vp(s, t, keep, k)[r] == s[j], rank(s, t, keep, j) == r
    decreases k
{
    if vis(s, t, keep, k - 1) && r == rank(s, t, keep, k - 1) { k - 1 }
    else {
        if vis(s, t, keep, k - 1) { assert(vp(s, t, keep, k)[r] == vp(s, t, keep, k - 1)[r]); }
        lemma_vp_members(s, t, keep, k - 1, r)
    }
}
proof fn lemma_vp_at_rank(s: Seq<Ent>, t: u64, keep: bool, n: int, c: int)
    requires 0 <= c < n <= s.len(), vis(s, t, keep, c)
    ensures rank(s, t, keep, c) < rank(s, t, keep, n), vp(s, t, keep, n)[rank(s, t, keep, c)] == s[c]
{
    lemma_rank_mono(s, t, keep, c + 1, n);
    assert(vp(s, t, keep, c + 1) == vp(s, t, keep, c).push(s[c]));
    assert(vp(s, t, keep, c + 1)[rank(s, t, keep, c)] == s[c]);
}
proof fn lemma_vp_sorted(s: Seq<Ent>, t: u64, keep: bool, k: int)
    requires sorted(s), 0 <= k <= s.len()
    ensures sorted(vp(s, t, keep, k))
{
    let v = vp(s, t, keep, k);
    assert forall|x: int, y: int| 0 <= x < y < v.len() implies kt_lt(v[x].key, v[x].ts, v[y].key, v[y].ts) by {
        let jx = lemma_vp_members(s, t, keep, k, x);
        let jy = lemma_vp_members(s, t, keep, k, y);
        if jx >= jy { lemma_rank_mono(s, t, keep, jy, jx); }
    }
}


// ---------------------------------------------------------------- the forward-scan invariant
spec fn skv(sk: Option<Vec<u8>>) -> Option<Seq<u8>> { match sk { Some(v) => Some(v@), None => None } }
spec fn older_seen(s: Seq<Ent>, t: u64, c: int, k: Seq<u8>) -> bool { exists|i: int| 0 <= i <= c && i < s.len() && #[trigger] s[i].key == k && s[i].ts <= t }
// for every entry still ahead, "its key is the skip key" says exactly "a version <= t of its key was already passed"
spec fn fwd_inv(s: Seq<Ent>, t: u64, sk: Option<Seq<u8>>, c: int) -> bool {
    forall|j: int| c < j < s.len() ==> ((sk == Some(#[trigger] s[j].key)) <==> older_seen(s, t, c, s[j].key))
}
proof fn lemma_same_key_between(s: Seq<Ent>, i: int, m: int, j: int)
    requires sorted(s), 0 <= i <= m <= j < s.len(), s[i].key == s[j].key
    ensures s[m].key == s[i].key
{
    lemma_sorted_keys(s, i, m); lemma_sorted_keys(s, m, j);
    lemma_lex_antisym(s[i].key, s[m].key);
}
// the invariant holds at the two rest states a forward scan starts from
proof fn lemma_fwd_inv_rest(s: Seq<Ent>, t: u64, keep: bool, sk: Option<Seq<u8>>, c: int)
    requires sorted(s), -1 <= c < s.len(), (c == -1 && sk is None) || (vis(s, t, keep, c) && sk == Some(s[c].key))
    ensures fwd_inv(s, t, sk, c)
{
    assert forall|j: int| c < j < s.len() implies ((sk == Some(#[trigger] s[j].key)) <==> older_seen(s, t, c, s[j].key)) by {
        if c >= 0 {
            if s[j].key == s[c].key { assert(s[c].key == s[j].key && s[c].ts <= t); }
            if older_seen(s, t, c, s[j].key) {
                let i = choose|i: int| 0 <= i <= c && i < s.len() && #[trigger] s[i].key == s[j].key && s[i].ts <= t;
                lemma_same_key_between(s, i, c, j);
            }
        }
    }
}
// stepping over entry c+1: the skip key afterwards is nk
proof fn lemma_fwd_inv_step(s: Seq<Ent>, t: u64, sk: Option<Seq<u8>>, nk: Option<Seq<u8>>, c: int)
    requires
        sorted(s), -1 <= c, c + 1 < s.len(), fwd_inv(s, t, sk, c),
        s[c + 1].ts > t ==> nk == sk,
        s[c + 1].ts <= t ==> nk == Some(s[c + 1].key),
    ensures fwd_inv(s, t, nk, c + 1)
{
    let c1 = c + 1;
    assert forall|j: int| c1 < j < s.len() implies ((nk == Some(#[trigger] s[j].key)) <==> older_seen(s, t, c1, s[j].key)) by {
        if s[c1].ts > t {
            if older_seen(s, t, c1, s[j].key) {
                let i = choose|i: int| 0 <= i <= c1 && i < s.len() && #[trigger] s[i].key == s[j].key && s[i].ts <= t;
                assert(i <= c);
                assert(older_seen(s, t, c, s[j].key));
            }
            if older_seen(s, t, c, s[j].key) {
                let i = choose|i: int| 0 <= i <= c && i < s.len() && #[trigger] s[i].key == s[j].key && s[i].ts <= t;
                assert(0 <= i <= c1 && s[i].key == s[j].key && s[i].ts <= t);
            }
        } else {
            if s[j].key == s[c1].key { assert(s[c1].key == s[j].key && s[c1].ts <= t); }
            if older_seen(s, t, c1, s[j].key) {
                let i = choose|i: int| 0 <= i <= c1 && i < s.len() && #[trigger] s[i].key == s[j].key && s[i].ts <= t;
                lemma_same_key_between(s, i, c1, j);
            }
        }
    }
}
// what the skip test decides about the entry just ahead
proof fn lemma_vis_by_skip(s: Seq<Ent>, t: u64, keep: bool, sk: Option<Seq<u8>>, c: int)
    requires sorted(s), -1 <= c, c + 1 < s.len(), fwd_inv(s, t, sk, c)
    ensures vis(s, t, keep, c + 1) == (s[c + 1].ts <= t && sk != Some(s[c + 1].key) && (keep || s[c + 1].val is Some))
{
    let c1 = c + 1;
    if older_seen(s, t, c, s[c1].key) {
        let i = choose|i: int| 0 <= i <= c && i < s.len() && #[trigger] s[i].key == s[c1].key && s[i].ts <= t;
        assert(!vis(s, t, keep, c1));
    } else {
        assert forall|j: int| 0 <= j < c1 && #[trigger] s[j].key == s[c1].key implies s[j].ts > t by {
            if s[j].ts <= t { assert(0 <= j <= c && s[j].key == s[c1].key && s[j].ts <= t); }
        }
    }
}

// a scan that starts at the child's lower bound of k starts with nothing "already passed"
proof fn lemma_fwd_inv_seek(s: Seq<Ent>, t: u64, k: Seq<u8>, c0: int)
    requires sorted(s), is_lower_bound(s, k, c0)
    ensures fwd_inv(s, t, None, c0 - 1)
{
    assert forall|j: int| c0 - 1 < j < s.len() implies ((None::<Seq<u8>> == Some(#[trigger] s[j].key)) <==> older_seen(s, t, c0 - 1, s[j].key)) by {
        if older_seen(s, t, c0 - 1, s[j].key) {
            let i = choose|i: int| 0 <= i <= c0 - 1 && i < s.len() && #[trigger] s[i].key == s[j].key && s[i].ts <= t;
            assert(lex_lt(s[i].key, k) && lex_le(k, s[j].key));
            lemma_lex_order_total();
        }
    }
}
// where the pruned cursor lands after seek(k): the first visible entry at/after the child's lower bound
proof fn lemma_seek_post(s: Seq<Ent>, t: u64, keep: bool, k: Seq<u8>, c0: int, c: int)
    requires
        sorted(s), is_lower_bound(s, k, c0), c0 <= c <= s.len(),
        forall|j: int| c0 <= j < c ==> !vis(s, t, keep, j),
    ensures is_lower_bound(vp(s, t, keep, s.len() as int), k, rank(s, t, keep, c))
{
    let n = s.len() as int;
    let v = vp(s, t, keep, n);
    let p = rank(s, t, keep, c);
    lemma_rank_mono(s, t, keep, c, n);
    assert forall|r: int| 0 <= r < p implies lex_lt(#[trigger] v[r].key, k) by {
        let j = lemma_vp_members(s, t, keep, c, r);
        assert(v[r] == vp(s, t, keep, c)[r]);
        assert(j < c0);
    }
    assert forall|r: int| p <= r < v.len() implies lex_le(k, #[trigger] v[r].key) by {
        let j = lemma_vp_members(s, t, keep, n, r);
        if j < c { lemma_rank_mono(s, t, keep, j + 1, c); assert(vp(s, t, keep, j + 1) == vp(s, t, keep, j).push(s[j])); }
    }
}

// ---------------------------------------------------------------- backward scan
// every entry of key k before index c is newer than t
spec fn older_newer(s: Seq<Ent>, t: u64, c: int, k: Seq<u8>) -> bool {
    forall|i: int| 0 <= i < c && i < s.len() && #[trigger] s[i].key == k ==> s[i].ts > t
}
proof fn lemma_group_ts(s: Seq<Ent>, i: int, j: int)
    requires sorted(s), 0 <= i < j < s.len(), s[i].key == s[j].key
    ensures s[i].ts > s[j].ts
{
    assert(kt_lt(s[i].key, s[i].ts, s[j].key, s[j].ts));
}
//@ extract sst/src/lib.rs | fn logic_error_prev_not_positioned
//@ external-body
//@ end

//@ extract sst/src/pruning_cursor.rs | struct PruningCursor
//@ end

spec fn skip_is(sk: Option<Vec<u8>>, k: Seq<u8>) -> bool { sk is Some && sk->Some_0@ == k }

impl<C: Cursor> PruningCursor<C> {
    spec fn s(&self) -> Seq<Ent> { self.cursor.ents() }
    spec fn n(&self) -> int { self.cursor.ents().len() as int }
    spec fn rest(&self) -> bool {
        let c = self.cursor.pos();
        (c == -1 && self.skip_key is None) || c == self.n()
            || (vis(self.s(), self.timestamp, self.retain_tombstones, c) && skip_is(self.skip_key, self.s()[c].key))
    }

//@ extract sst/src/pruning_cursor.rs | impl PruningCursor<C> :: fn new
//@ ret r
//@ pre <<
        cursor.wf_base(),
//@ >>
//@ post <<
        r is Ok ==> r->Ok_0.wf() && r->Ok_0.pos() == -1 && r->Ok_0.s() == cursor.ents() && r->Ok_0.timestamp == timestamp && !r->Ok_0.retain_tombstones,
//@ >>
//@ end

//@ extract sst/src/pruning_cursor.rs | impl PruningCursor<C> :: fn with_tombstones
//@ ret r
//@ pre <<
        cursor.wf_base(),
//@ >>
//@ post <<
        r is Ok ==> r->Ok_0.wf() && r->Ok_0.pos() == -1 && r->Ok_0.s() == cursor.ents() && r->Ok_0.timestamp == timestamp && r->Ok_0.retain_tombstones,
//@ >>
//@ end

//@ extract sst/src/pruning_cursor.rs | impl PruningCursor<C> :: fn set_skip_key
//@ pre <<
        old(self).cursor.wf(),
//@ >>
//@ post <<
        final(self).cursor == old(self).cursor, final(self).timestamp == old(self).timestamp, final(self).retain_tombstones == old(self).retain_tombstones,
        match key_at(old(self).s(), old(self).cursor.pos()) { Some(k) => skip_is(final(self).skip_key, k.0), None => final(self).skip_key is None },
//@ >>
//@ bodystart <<
        proof { self.cursor.lemma_cursor_laws(); }
//@ >>
//@ end
}

pub assume_specification<T: Clone> [<[T]>::to_vec] (s: &[T]) -> (r: Vec<T>)
    ensures r@ == s@;

impl<C: Cursor> Cursor for PruningCursor<C> {
    spec fn ents(&self) -> Seq<Ent> { vp(self.s(), self.timestamp, self.retain_tombstones, self.n()) }
    spec fn pos(&self) -> int {
        let c = self.cursor.pos();
        if c == -1 { -1 } else { rank(self.s(), self.timestamp, self.retain_tombstones, c) }
    }
    spec fn wf_base(&self) -> bool { self.cursor.wf_base() }
    spec fn wf(&self) -> bool { self.cursor.wf() && self.rest() }
    spec fn key_spec(&self) -> Option<(Seq<u8>, u64)> { self.cursor.key_spec() }
    spec fn val_spec(&self) -> Option<Seq<u8>> { self.cursor.val_spec() }

    proof fn lemma_cursor_laws(&self) {
        self.cursor.lemma_cursor_laws();
        if self.cursor.wf_base() {
            lemma_vp_sorted(self.s(), self.timestamp, self.retain_tombstones, self.n());
        }
        if self.wf() {
            let c = self.cursor.pos();
            lemma_rank_mono(self.s(), self.timestamp, self.retain_tombstones, if c < 0 { 0 } else { c }, self.n());
            if 0 <= c < self.n() { lemma_vp_at_rank(self.s(), self.timestamp, self.retain_tombstones, self.n(), c); }
        }
    }

//@ extract sst/src/pruning_cursor.rs | impl Cursor for PruningCursor<C> :: fn seek_to_first
//@ end

//@ extract sst/src/pruning_cursor.rs | impl Cursor for PruningCursor<C> :: fn seek_to_last
//@ end


//@ extract sst/src/pruning_cursor.rs | impl Cursor for PruningCursor<C> :: fn seek
//@ rewrite-re X9 `self\.skip_key\.as_ref\(\)\.unwrap\(\)\s*!=\s*kr\.key` => `!bytes_eq(self.skip_key.as_ref().unwrap().as_slice(), kr.key)`
//@ after `self.cursor.seek(key)?;` <<
        let ghost c0 = self.cursor.pos();
        proof {
            self.cursor.lemma_cursor_laws();
            lemma_fwd_inv_seek(self.s(), self.timestamp, key@, c0);
        }
//@ >>
//@ loop 0 <<
            invariant
                self.cursor.wf(), self.cursor.wf_base(), self.cursor.ents() == old(self).cursor.ents(),
                self.timestamp == old(self).timestamp, self.retain_tombstones == old(self).retain_tombstones,
                sorted(self.s()), is_lower_bound(self.s(), key@, c0),
                c0 <= self.cursor.pos() <= self.n(),
                forall|j: int| c0 <= j < self.cursor.pos() ==> !vis(self.s(), self.timestamp, self.retain_tombstones, j),
                self.cursor.pos() < self.n() ==> fwd_inv(self.s(), self.timestamp, skv(self.skip_key), self.cursor.pos() - 1),
            decreases self.n() - self.cursor.pos(),
//@ >>
//@ before `let kr = match self.key() {` <<
            proof {
                self.cursor.lemma_cursor_laws();
                if self.cursor.pos() < self.n() { lemma_vis_by_skip(self.s(), self.timestamp, self.retain_tombstones, skv(self.skip_key), self.cursor.pos() - 1); }
            }
            let ghost sk0 = skv(self.skip_key);
//@ >>
//@ beforeall `return Ok(());` <<
                    proof {
                        self.cursor.lemma_cursor_laws();
                        lemma_seek_post(self.s(), self.timestamp, self.retain_tombstones, key@, c0, self.cursor.pos());
                    }
//@ >>
//@ before `self.cursor.next()?;` <<
            proof { lemma_fwd_inv_step(self.s(), self.timestamp, sk0, skv(self.skip_key), self.cursor.pos() - 1); }
//@ >>
//@ end

//@ extract sst/src/pruning_cursor.rs | impl Cursor for PruningCursor<C> :: fn prev
//@ rewrite-re X9 `self\.skip_key\.as_ref\(\)\.unwrap\(\)\s*!=\s*kr\.key` => `!bytes_eq(self.skip_key.as_ref().unwrap().as_slice(), kr.key)`
//@ rewrite-re X9 `kr\.key\s*!=\s*target_key` => `!bytes_eq(kr.key, target_key.as_slice())`
//@ rewrite-re X9 `kr\.key\s*==\s*target_key` => `bytes_eq(kr.key, target_key.as_slice())`
//@ bodystart <<
        let ghost c0 = self.cursor.pos();
        proof { self.cursor.lemma_cursor_laws(); old(self).lemma_cursor_laws(); }
//@ >>
// L0: the outer loop.  [pos, c0) holds no visible entry; a set skip key is the key of the entry under the
// child, and every earlier version of that key is newer than t.
//@ loop 0 <<
            invariant
                    self.cursor.wf(), self.cursor.wf_base(), self.cursor.ents() == old(self).cursor.ents(),
                    self.timestamp == old(self).timestamp, self.retain_tombstones == old(self).retain_tombstones,
                    sorted(self.s()), old(self).wf(), c0 == old(self).cursor.pos(),
                -1 <= self.cursor.pos() <= c0 <= self.n(),
                forall|j: int| self.cursor.pos() <= j < c0 && 0 <= j ==> !vis(self.s(), self.timestamp, self.retain_tombstones, j),
                self.skip_key is Some ==> 0 <= self.cursor.pos() < self.n() && self.s()[self.cursor.pos()].key == self.skip_key->Some_0@
                    && older_newer(self.s(), self.timestamp, self.cursor.pos(), self.skip_key->Some_0@),
                self.skip_key is None ==> self.cursor.pos() == c0 && (c0 == self.n() || c0 == -1),
            decreases self.cursor.pos() + 1,
//@ >>
//@ startloop 0 <<
            let ghost ch = self.cursor.pos();
            let ghost skh = skv(self.skip_key);
//@ >>
//@ afterall `self.cursor.prev()?;` <<
            proof { self.cursor.lemma_cursor_laws(); }
//@ >>
//@ afterall `self.cursor.next()?;` <<
            proof { self.cursor.lemma_cursor_laws(); }
//@ >>
// L1: walk back over the group of the skip key (all newer than t); stop on the last entry of the previous group
//@ loop 1 <<
                invariant
                    self.cursor.wf(), self.cursor.wf_base(), self.cursor.ents() == old(self).cursor.ents(),
                    self.timestamp == old(self).timestamp, self.retain_tombstones == old(self).retain_tombstones,
                    sorted(self.s()), old(self).wf(), c0 == old(self).cursor.pos(),
                    -1 <= self.cursor.pos() <= ch <= c0 <= self.n(), ch >= 0 ==> self.cursor.pos() < ch,
                    forall|j: int| self.cursor.pos() < j < c0 && 0 <= j ==> !vis(self.s(), self.timestamp, self.retain_tombstones, j),
                    self.skip_key is Some ==> skv(self.skip_key) == skh && 0 <= ch < self.n() && self.s()[ch].key == skh->Some_0
                        && older_newer(self.s(), self.timestamp, ch, skh->Some_0)
                        && (forall|i: int| self.cursor.pos() < i <= ch ==> #[trigger] self.s()[i].key == skh->Some_0),
                    self.skip_key is None ==> (self.cursor.pos() >= 0 ==> (self.cursor.pos() + 1 == self.n() || self.s()[self.cursor.pos() + 1].key != self.s()[self.cursor.pos()].key)),
                decreases (if self.skip_key is Some { 1int } else { 0int }), self.cursor.pos() + 1,
//@ >>
//@ startloop 1 <<
                proof { self.cursor.lemma_cursor_laws(); }
//@ >>
//@ afterloop 1 <<
            proof { self.cursor.lemma_cursor_laws(); }
//@ >>
// the oldest version of this key is newer than t: the whole group is invisible
//@ before `continue;` <<
                proof {
                    let c = self.cursor.pos();
                    assert forall|i: int| 0 <= i < c && i < self.s().len() && #[trigger] self.s()[i].key == self.s()[c].key implies self.s()[i].ts > self.timestamp by { lemma_group_ts(self.s(), i, c); }
                }
//@ >>
//@ after `let target_key = kr.key.to_vec();` <<
            let ghost e = self.cursor.pos();
            let ghost tk = target_key@;
//@ >>
// L2: walk back while the entry is a version <= t of the target key
//@ loop 2 <<
                invariant_except_break
                    0 <= self.cursor.pos() <= e,
                    forall|i: int| self.cursor.pos() <= i <= e ==> #[trigger] self.s()[i].key == tk && self.s()[i].ts <= self.timestamp,
                invariant
                    self.cursor.wf(), self.cursor.wf_base(), self.cursor.ents() == old(self).cursor.ents(),
                    self.timestamp == old(self).timestamp, self.retain_tombstones == old(self).retain_tombstones,
                    sorted(self.s()), old(self).wf(), c0 == old(self).cursor.pos(),
                    0 <= e < self.n(), e < c0, target_key@ == tk, self.skip_key is None,
                    forall|j: int| e < j < c0 && 0 <= j ==> !vis(self.s(), self.timestamp, self.retain_tombstones, j),
                ensures
                    -1 <= self.cursor.pos() < e,
                    forall|i: int| self.cursor.pos() < i <= e ==> #[trigger] self.s()[i].key == tk && self.s()[i].ts <= self.timestamp,
                    self.cursor.pos() >= 0 ==> !(self.s()[self.cursor.pos()].key == tk && self.s()[self.cursor.pos()].ts <= self.timestamp),
                decreases self.cursor.pos() + 1,
//@ >>
//@ startloop 2 <<
                let ghost c2 = self.cursor.pos();
                assert(0 <= c2 <= e);
                assert(forall|i: int| c2 <= i <= e ==> #[trigger] self.s()[i].key == tk && self.s()[i].ts <= self.timestamp);
//@ >>
//@ afterloop 2 <<
            let ghost x = self.cursor.pos();
            proof { self.cursor.lemma_cursor_laws(); }
//@ >>
//@ before `while let Some(kr) = self.key() {` <<
            proof { self.cursor.lemma_cursor_laws(); }
//@ >>
// L3: step forward onto the newest version <= t of the target key (at most one step)
//@ loop 3 <<
                invariant
                    self.cursor.wf(), self.cursor.wf_base(), self.cursor.ents() == old(self).cursor.ents(),
                    self.timestamp == old(self).timestamp, self.retain_tombstones == old(self).retain_tombstones,
                    sorted(self.s()), old(self).wf(), c0 == old(self).cursor.pos(),
                    target_key@ == tk, self.skip_key is None, e < c0 <= self.n(),
                    forall|j: int| e < j < c0 && 0 <= j ==> !vis(self.s(), self.timestamp, self.retain_tombstones, j),
                    -1 <= x < e < self.n(), x <= self.cursor.pos() <= x + 1, 0 <= self.cursor.pos(),
                    forall|i: int| x < i <= e ==> #[trigger] self.s()[i].key == tk && self.s()[i].ts <= self.timestamp,
                    x >= 0 ==> !(self.s()[x].key == tk && self.s()[x].ts <= self.timestamp),
                    self.cursor.key_spec() == key_at(self.s(), self.cursor.pos()),
                ensures
                    self.cursor.wf(), self.cursor.wf_base(), self.cursor.ents() == old(self).cursor.ents(),
                    self.cursor.pos() == x + 1,
                decreases x + 1 - self.cursor.pos(),
//@ >>
//@ startloop 3 <<
                proof { self.cursor.lemma_cursor_laws(); }
//@ >>
//@ afterloop 3 <<
            proof { self.cursor.lemma_cursor_laws(); }
//@ >>
// the entry under the child is the newest version <= t of its key; the later versions up to e are invisible
//@ before `if self.value().is_some() || self.retain_tombstones {` <<
            proof {
                let s = self.s(); let t = self.timestamp; let keep = self.retain_tombstones; let cs = self.cursor.pos();
                assert forall|i: int| 0 <= i < cs && i < s.len() && #[trigger] s[i].key == tk implies s[i].ts > t by {
                    if x >= 0 {
                        if s[x].key == tk { if i < x { lemma_group_ts(s, i, x); } }
                        else { lemma_same_key_between(s, i, x, cs); }
                    }
                }
                assert forall|j: int| cs < j <= e implies !vis(s, t, keep, j) by { assert(s[cs].key == s[j].key && s[cs].ts <= t); }
            }
//@ >>
//@ beforeall `return Ok(());` <<
                    proof {
                        let s = self.s(); let t = self.timestamp; let keep = self.retain_tombstones; let c = self.cursor.pos(); let n = self.n();
                        self.cursor.lemma_cursor_laws(); old(self).lemma_cursor_laws();
                        if c == -1 { if c0 >= 0 { lemma_rank_flat(s, t, keep, 0, c0); } }
                        else {
                            lemma_rank_flat(s, t, keep, c + 1, c0);
                            assert(vp(s, t, keep, c + 1) == vp(s, t, keep, c).push(s[c]));
                            lemma_rank_mono(s, t, keep, c + 1, n);
                            lemma_vp_at_rank(s, t, keep, n, c);
                        }
                    }
//@ >>
//@ end

//@ extract sst/src/pruning_cursor.rs | impl Cursor for PruningCursor<C> :: fn next
//@ rewrite-re X9 `self\.skip_key\.as_ref\(\)\.unwrap\(\)\s*!=\s*kr\.key` => `!bytes_eq(self.skip_key.as_ref().unwrap().as_slice(), kr.key)`
//@ bodystart <<
        proof {
            self.cursor.lemma_cursor_laws();
            if self.cursor.pos() < self.n() { lemma_fwd_inv_rest(self.s(), self.timestamp, self.retain_tombstones, skv(self.skip_key), self.cursor.pos()); }
        }
//@ >>
//@ loop 0 <<
            invariant
                self.cursor.wf(), self.cursor.wf_base(), self.cursor.ents() == old(self).cursor.ents(),
                self.timestamp == old(self).timestamp, self.retain_tombstones == old(self).retain_tombstones,
                sorted(self.s()), old(self).wf(),
                old(self).cursor.pos() <= self.cursor.pos() <= self.n(), -1 <= old(self).cursor.pos(),
                forall|j: int| old(self).cursor.pos() < j <= self.cursor.pos() && j < self.n() ==> !vis(self.s(), self.timestamp, self.retain_tombstones, j),
                self.cursor.pos() < self.n() ==> fwd_inv(self.s(), self.timestamp, skv(self.skip_key), self.cursor.pos()),
            decreases self.n() - self.cursor.pos(),
//@ >>
//@ after `self.cursor.next()?;` <<
            proof {
                self.cursor.lemma_cursor_laws();
                let c1 = self.cursor.pos();
                if c1 < self.n() && c1 > old_c@ { lemma_vis_by_skip(self.s(), self.timestamp, self.retain_tombstones, skv(self.skip_key), c1 - 1); }
            }
            let ghost sk0 = skv(self.skip_key);
//@ >>
//@ before `self.cursor.next()?;` <<
            let ghost old_c = Ghost(self.cursor.pos());
//@ >>
//@ beforeall `return Ok(());` <<
                    proof {
                        let s = self.s(); let t = self.timestamp; let keep = self.retain_tombstones;
                        let c0 = old(self).cursor.pos(); let c1 = self.cursor.pos(); let n = self.n();
                        self.cursor.lemma_cursor_laws();
                        old(self).lemma_cursor_laws();
                        if c0 < n {
                            lemma_rank_flat(s, t, keep, c0 + 1, c1);
                            lemma_rank_mono(s, t, keep, c0 + 1, n);
                            if c1 < n { lemma_vp_at_rank(s, t, keep, n, c1); }
                            if c0 >= 0 { assert(vp(s, t, keep, c0 + 1) == vp(s, t, keep, c0).push(s[c0])); }
                        }
                    }
//@ >>
//@ endloop 0 <<
            proof {
                let c1 = self.cursor.pos();
                lemma_fwd_inv_step(self.s(), self.timestamp, sk0, skv(self.skip_key), c1 - 1);
            }
//@ >>
//@ end

//@ extract sst/src/pruning_cursor.rs | impl Cursor for PruningCursor<C> :: fn key
//@ bodystart <<
        proof { self.lemma_cursor_laws(); }
//@ >>
//@ end

//@ extract sst/src/pruning_cursor.rs | impl Cursor for PruningCursor<C> :: fn value
//@ bodystart <<
        proof { self.lemma_cursor_laws(); }
//@ >>
//@ end
}

//@ min-verified 30
} // verus!
fn main() {}
