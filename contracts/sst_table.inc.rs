// The shape of a sealed SST as seen by its cursor (shared by unit sst_cursor, which relies on it, and unit sst_builder,
// which proves the builder establishes it): one divider per data block, non-empty blocks that are consecutive pieces of
// ONE sorted stream of entries, and  keys of block i <= divider_i <= keys of block i+1  (not strict: the versions of one key
// may straddle two blocks, the divider then carries that key).
spec fn table_pred(bs: Seq<Seq<Ent>>, divs: Seq<Seq<u8>>) -> bool {
    &&& bs.len() == divs.len() && bs.len() >= 1
    &&& forall|i: int| 0 <= i < bs.len() ==> (#[trigger] bs[i]).len() >= 1 && sorted(bs[i])
    &&& forall|i: int, j: int| 0 <= i < bs.len() && 0 <= j < bs[i].len() ==> lex_le(#[trigger] bs[i][j].key, divs[i])
    &&& forall|i: int, j: int| 0 <= i && i + 1 < bs.len() && 0 <= j < bs[i + 1].len() ==> lex_le(divs[i], #[trigger] bs[i + 1][j].key)
    &&& sorted(flat(bs, bs.len() as int))
}
