//@ package sst
//@ modfile sst/src/bounds_cursor.rs
//@ flags --lib --no-default-features

#[cfg(kani)]
pub(crate) mod __verif_bounds {
    use super::*;
//@ include arrcursor.inc.rs

    fn any_bound() -> Bound<Vec<u8>> {
        let k: u8 = kani::any();
        kani::assume(k <= 6);
        let sel: u8 = kani::any();
        kani::assume(sel < 3);
        if sel == 0 { Bound::Unbounded } else {
            let mut v: Vec<u8> = Vec::with_capacity(1);
            v.push(k);
            if sel == 1 { Bound::Included(v) } else { Bound::Excluded(v) }
        }
    }
    fn sat_start(b: &Bound<Vec<u8>>, k: u8) -> bool { match b { Bound::Unbounded => true, Bound::Included(s) => k >= s[0], Bound::Excluded(s) => k > s[0] } }
    fn sat_end(b: &Bound<Vec<u8>>, k: u8) -> bool { match b { Bound::Unbounded => true, Bound::Included(e) => k <= e[0], Bound::Excluded(e) => k < e[0] } }
    // lo = first index satisfying the start bound, hi = first index violating the end bound
    fn lo_hi(c: &ArrCursor, s: &Bound<Vec<u8>>, e: &Bound<Vec<u8>>) -> (isize, isize) {
        let mut lo = c.n as isize; let mut hi = c.n as isize;
        let mut i = ARR_N; 
        while i > 0 { i -= 1; if i < c.n { if sat_start(s, c.keys[i][0]) { lo = i as isize; } if !sat_end(e, c.keys[i][0]) { hi = i as isize; } } }
        (lo, hi)
    }
    fn rlen(lo: isize, hi: isize) -> isize { if hi > lo { hi - lo } else { 0 } }

    // abstraction function; None = not a rest state
    fn view(bc: &BoundsCursor<ArrCursor>) -> Option<isize> {
        let ch = &bc.cursor;
        let (lo, hi) = lo_hi(ch, &bc.start_bound, &bc.end_bound);
        let n = ch.n as isize; let c = ch.pos;
        match bc.bounds {
            Bounds::Positioned => {
                if c == -1 { Some(-1) }
                else if c >= lo && c < hi { Some(c - lo) }
                else if c == n && (hi == n || lo == n) { Some(rlen(lo, hi)) }
                else { None }
            }
            Bounds::BeforeStart => { if c < lo || (c == n && lo == n) { Some(-1) } else { None } }
            Bounds::AfterEnd => { if c == hi || (hi <= lo && c <= lo && c >= hi) { Some(rlen(lo, hi)) } else { None } }
        }
    }
    fn any_state() -> (BoundsCursor<ArrCursor>, isize) {
        let mut ch = ArrCursor::any_sorted();
        let q: isize = kani::any(); kani::assume(q >= -1 && q <= ch.n as isize); ch.pos = q;
        let sel: u8 = kani::any(); kani::assume(sel < 3);
        let bounds = if sel == 0 { Bounds::BeforeStart } else if sel == 1 { Bounds::Positioned } else { Bounds::AfterEnd };
        let bc = BoundsCursor { cursor: ch, bounds, start_bound: any_bound(), end_bound: any_bound() };
        let r = match view(&bc) { Some(r) => r, None => { kani::assume(false); 0 } };
        (bc, r)
    }
    fn check_at(bc: &BoundsCursor<ArrCursor>, r: isize) {
        let ch = &bc.cursor;
        let (lo, hi) = lo_hi(ch, &bc.start_bound, &bc.end_bound);
        assert!(view(bc) == Some(r));
        if r >= 0 && r < rlen(lo, hi) {
            let i = (lo + r) as usize;
            match bc.key() { Some(k) => { assert!(k.key[0] == ch.keys[i][0] && k.timestamp == ch.ts[i]); } None => { assert!(false); } }
            match bc.value() { Some(v) => { assert!(ch.has_val[i] && v[0] == ch.vals[i][0]); } None => { assert!(!ch.has_val[i]); } }
        } else {
            assert!(bc.key().is_none() && bc.value().is_none());
        }
    }
    fn ok(r: Result<(), SError>) { match r { Ok(()) => {}, Err(e) => { core::mem::forget(e); assert!(false); } } }

    //@ H kind=bounded tier=quick timeout=1800 bound="child <=3 entries, keys 0..=5, every bound kind/key 0..=6 (incl. empty and inverted ranges), every rest state" oblig="sst::BoundsCursor::next==restrict.next"
    #[kani::proof]
    #[kani::unwind(6)]
    fn bounds_next() {
        let (mut bc, r) = any_state();
        let (lo, hi) = lo_hi(&bc.cursor, &bc.start_bound, &bc.end_bound);
        ok(bc.next());
        let len = rlen(lo, hi);
        check_at(&bc, if r < len { r + 1 } else { len });
        kani::cover!(r == -1 && len > 1);
        core::mem::forget(bc);
    }

    //@ H kind=bounded tier=quick timeout=1800 bound="child <=3 entries, keys 0..=5, every bound kind/key 0..=6, every rest state" oblig="sst::BoundsCursor::prev==restrict.prev"
    #[kani::proof]
    #[kani::unwind(6)]
    fn bounds_prev() {
        let (mut bc, r) = any_state();
        ok(bc.prev());
        check_at(&bc, if r > -1 { r - 1 } else { -1 });
        kani::cover!(r > 0);
        core::mem::forget(bc);
    }

    //@ H kind=bounded tier=quick timeout=1800 bound="child <=3 entries, keys 0..=5, every bound kind/key 0..=6, every rest state, seek keys 0..=6" oblig="sst::BoundsCursor::seek==restrict.seek"
    #[kani::proof]
    #[kani::unwind(6)]
    fn bounds_seek() {
        let (mut bc, _r) = any_state();
        let (lo, hi) = lo_hi(&bc.cursor, &bc.start_bound, &bc.end_bound);
        let k: [u8; 1] = kani::any(); kani::assume(k[0] <= 6);
        ok(bc.seek(&k[..]));
        let len = rlen(lo, hi);
        let mut want = len; let mut j = ARR_N as isize;
        while j > 0 { j -= 1; if j < len { if bc.cursor.keys[(lo + j) as usize][0] >= k[0] { want = j; } } }
        check_at(&bc, want);
        kani::cover!(want == len && len > 0);
        kani::cover!(want == 0 && len > 1);
        core::mem::forget(bc);
    }

    //@ H kind=bounded tier=quick timeout=1800 bound="child <=3 entries, keys 0..=5, every bound kind/key 0..=6, every rest state" oblig="sst::BoundsCursor::seek_to_first/last+new"
    #[kani::proof]
    #[kani::unwind(6)]
    fn bounds_ends_and_new() {
        let (mut bc, _r) = any_state();
        let (lo, hi) = lo_hi(&bc.cursor, &bc.start_bound, &bc.end_bound);
        if kani::any() { ok(bc.seek_to_first()); check_at(&bc, -1); } else { ok(bc.seek_to_last()); check_at(&bc, rlen(lo, hi)); }
        core::mem::forget(bc);
        // constructor establishes the invariant at the before-first position
        let ch = ArrCursor::any_sorted();
        let k1: [u8; 1] = kani::any(); let k2: [u8; 1] = kani::any(); kani::assume(k1[0] <= 6 && k2[0] <= 6);
        let s: Bound<&[u8]> = if kani::any() { Bound::Included(&k1[..]) } else if kani::any() { Bound::Excluded(&k1[..]) } else { Bound::Unbounded };
        let e: Bound<&[u8]> = if kani::any() { Bound::Included(&k2[..]) } else if kani::any() { Bound::Excluded(&k2[..]) } else { Bound::Unbounded };
        match BoundsCursor::new(ch, &s, &e) { Ok(b2) => { check_at(&b2, -1); core::mem::forget(b2); } Err(er) => { core::mem::forget(er); assert!(false); } }
        kani::cover!(rlen(lo, hi) == 3);
    }
}
