//@ package buffertk
//@ modfile buffertk/src/varint.rs
//@ flags --lib

#[cfg(kani)]
pub(crate) mod __verif_varint {
    use super::*;
    use crate::{Packable, Unpackable};

    // error payloads are abstracted (no property mentions them): constructing them goes through
    // format!/to_string which dominates CBMC time.
    fn stub_err_usize(_b: usize) -> SError { SError::from(handled::SExpr::Atom(String::new())) }
    fn stub_err_u64(_b: u64) -> SError { SError::from(handled::SExpr::Atom(String::new())) }
    fn stub_err_i64(_b: i64) -> SError { SError::from(handled::SExpr::Atom(String::new())) }

    // ---- the protobuf varint wire format, written from the encoding document ----
    fn enc(x: u64, out: &mut [u8; 10]) -> usize {
        let mut v = x;
        let mut n = 0usize;
        while n < 10 {
            let b = (v & 0x7f) as u8;
            v >>= 7;
            if v != 0 {
                out[n] = b | 0x80;
                n += 1;
            } else {
                out[n] = b;
                n += 1;
                break;
            }
        }
        n
    }
    // decode: Some((value, consumed)) when a terminator byte is found within the first min(len,10) bytes
    fn dec(buf: &[u8]) -> Option<(u64, usize)> {
        let mut v = 0u64;
        let mut i = 0usize;
        while i < 10 && i < buf.len() {
            let b = buf[i];
            v |= ((b & 0x7f) as u64).wrapping_shl(7 * i as u32);
            if b & 0x80 == 0 {
                return Some((v, i + 1));
            }
            i += 1;
        }
        None
    }

    //@ H kind=complete tier=quick timeout=600 oblig="buffertk::v64::pack_sz+pack::wire-format"
    #[kani::proof]
    #[kani::unwind(12)]
    fn pack_is_wire_format() {
        let x: u64 = kani::any();
        let v = v64::from(x);
        let mut want = [0u8; 10];
        let n = enc(x, &mut want);
        let sz = v.pack_sz();
        assert!(sz == n);
        let mut got: [u8; 10] = kani::any(); // pack must define every byte it claims
        v.pack(&mut got[..sz]);
        let mut i = 0;
        while i < 10 { if i < sz { assert!(got[i] == want[i]); } i += 1; }
        kani::cover!(sz == 1);
        kani::cover!(sz == 10);
    }

    //@ H kind=complete tier=quick timeout=900 oblig="buffertk::v64::unpack::roundtrip"
    #[kani::proof]
    #[kani::unwind(12)]
    #[kani::stub(crate::varint_overflow, stub_err_usize)]
    fn unpack_inverts_pack_both_paths() {
        let x: u64 = kani::any();
        let v = v64::from(x);
        let sz = v.pack_sz();
        // exact-length buffer (< 10 bytes goes through unpack_slow)
        let mut a = [0u8; 10];
        v.pack(&mut a[..sz]);
        match v64::unpack(&a[..sz]) {
            Ok((w, rest)) => { assert!(w.x == x); assert!(rest.len() == 0); }
            Err(e) => { core::mem::forget(e); assert!(false); }
        }
        // long buffer with arbitrary trailing bytes (ten-way unrolled path)
        let mut b: [u8; 14] = kani::any();
        v.pack(&mut b[..sz]);
        match v64::unpack(&b[..]) {
            Ok((w, rest)) => { assert!(w.x == x); assert!(rest.len() == 14 - sz); }
            Err(e) => { core::mem::forget(e); assert!(false); }
        }
        kani::cover!(sz == 10);
        kani::cover!(sz == 3);
    }

    // every byte string: no panic; result is the standard decoding; fast and slow decoders agree
    //@ H kind=complete tier=quick timeout=1200 oblig="buffertk::v64::unpack::total+definition"
    #[kani::proof]
    #[kani::unwind(14)]
    #[kani::stub(crate::varint_overflow, stub_err_usize)]
    fn unpack_total_matches_definition() {
        let buf: [u8; 12] = kani::any();
        let len: usize = kani::any();
        kani::assume(len <= 12);
        let s = &buf[..len];
        let want = dec(s);
        match v64::unpack(s) {
            Ok((w, rest)) => {
                match want {
                    // (the last clause is the contract unit prototk_iter assumes of the decoder: between 1 and 10 bytes
                    // are consumed, and never fewer than the canonical encoding of the value has)
                    Some((v, n)) => { assert!(w.x == v); assert!(rest.len() == len - n); assert!(1 <= n && n <= 10 && w.pack_sz() <= n); }
                    None => { assert!(false); }
                }
            }
            Err(e) => { core::mem::forget(e); assert!(want.is_none()); }
        }
        match v64::unpack_slow(s) {
            Ok((w, rest)) => {
                match want {
                    Some((v, n)) => { assert!(w.x == v); assert!(rest.len() == len - n); }
                    None => { assert!(false); }
                }
            }
            Err(e) => { core::mem::forget(e); assert!(want.is_none()); }
        }
        kani::cover!(want.is_none() && len == 12);
        kani::cover!(want.is_some() && len == 12);
        kani::cover!(len == 0);
    }

    //@ H kind=complete tier=quick timeout=600 oblig="buffertk::v64::conversions"
    #[kani::proof]
    #[kani::stub(crate::unsigned_overflow, stub_err_u64)]
    #[kani::stub(crate::signed_overflow, stub_err_i64)]
    fn conversions_roundtrip_and_reject() {
        let x: u64 = kani::any();
        let v = v64::from(x);
        let s = x as i64;
        macro_rules! chk {
            ($t:ty, $inrange:expr, $back:expr) => {{
                let r: Result<$t, SError> = v.try_into();
                match r {
                    Ok(y) => { assert!($inrange); assert!($back(y)); }
                    Err(e) => { core::mem::forget(e); assert!(!($inrange)); }
                }
            }};
        }
        chk!(u8, x <= u8::MAX as u64, |y: u8| y as u64 == x);
        chk!(u16, x <= u16::MAX as u64, |y: u16| y as u64 == x);
        chk!(u32, x <= u32::MAX as u64, |y: u32| y as u64 == x);
        chk!(i8, s >= i8::MIN as i64 && s <= i8::MAX as i64, |y: i8| y as i64 == s);
        chk!(i16, s >= i16::MIN as i64 && s <= i16::MAX as i64, |y: i16| y as i64 == s);
        chk!(i32, s >= i32::MIN as i64 && s <= i32::MAX as i64, |y: i32| y as i64 == s);
        let u: u64 = v.into();
        assert!(u == x);
        let i: i64 = v.into();
        assert!(i == s);
        // widening constructors
        let a: i32 = kani::any();
        let va = v64::from(a);
        assert!(va.x == a as i64 as u64);
        let b: u32 = kani::any();
        assert!(v64::from(b).x == b as u64);
        let a8: i8 = kani::any();
        assert!(v64::from(a8).x == a8 as i64 as u64);
        let a16: i16 = kani::any();
        assert!(v64::from(a16).x == a16 as i64 as u64);
        let b8: u8 = kani::any();
        assert!(v64::from(b8).x == b8 as u64);
        let b16: u16 = kani::any();
        assert!(v64::from(b16).x == b16 as u64);
        let c: usize = kani::any();
        let vc = v64::from(c);
        let backc: usize = vc.into();
        assert!(backc == c);
        kani::cover!(true);
    }
}
