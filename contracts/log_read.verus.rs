// Unit log_read (C12, reader half): LogIterator::{next, next_frame, next_header, true_up} against the format the
// writer unit (log_writer) proves the writer emits -- files of EVERY size, batches of every size, every position.
//   1. The file is a byte sequence D read without I/O faults (read_exact fails exactly when fewer bytes remain).
//      Each extracted method is proved to compute a deterministic parse of D (rd_header / rd_frame / rd_batch):
//      positions, buffer contents, which calls end the log and which report an error.
//   2. Contract lemmas over that parse and the SHARED format definition (log_format.inc.rs):
//        lemma_reads_back:    if D holds at offset o a layout `a` with appended_ok(o, batch, a) -- what the writer
//                             proof establishes for every append -- the reader returns exactly `batch` and stands at
//                             o + |a|, the offset of the next append;
//        lemma_prefix_stable: whatever batch the reader returns from a file cut at ANY byte, it returns from the
//                             uncut file, at the same position (a torn tail yields no partial or invented batch:
//                             the reader ends or reports an error instead);
//        lemma_log_reads_back: a file that is the concatenation of the layouts of batches b1..bn reads back as
//                             b1..bn and then ends.
// ASSUMED: a header is framed as [size byte = |packed header|] ++ packed header and the derive-generated decoder
// inverts the derive-generated encoder (axiom_hdr_frame; C15 covers derive round trips); CRC32C is an
// uninterpreted function; entry decoding inside a batch (next_from_buffer) is not interpreted.
use vstd::prelude::*;
use std::io::SeekFrom;
verus! {
global size_of usize == 8;

#[verifier::external_type_specification]
pub struct ExSeekFrom(std::io::SeekFrom);

#[verifier::external_body]
struct SError { _p: u8 }
//@ stubs sst/src/lib.rs -> SError
#[verifier::external_body]
struct IoError { _p: u8 }

//@ include log_format.inc.rs

spec const TF: int = 1073741824 - 67108864;
uninterp spec fn decode_hdr(b: Seq<u8>) -> Option<(u64, u32, u32)>;
// ASSUMED: the framing of a header and the round trip of the derive-generated Header codec
#[verifier::external_body]
proof fn axiom_hdr_frame(size: u64, discriminant: u32, crc: u32)
    ensures ({
        let h = hdr(size, discriminant, crc);
        &&& 3 <= h.len() <= 19
        &&& h[0] as int == h.len() - 1
        &&& decode_hdr(h.subrange(1, h.len() as int)) == Some((size, discriminant, crc))
    })
{ }

// ---------------------------------------------------------------- the file, read without faults
#[verifier::external_body]
struct Input { _p: u8 }
impl Input {
    uninterp spec fn data(&self) -> Seq<u8>;
    uninterp spec fn pos(&self) -> int;
    spec fn ok(&self) -> bool { 0 <= self.pos() <= 0x4000_0000_0000_0000 && self.data().len() <= 0x4000_0000_0000_0000 }

    #[verifier::external_body]
    fn read_exact(&mut self, buf: &mut [u8]) -> (r: Result<(), IoError>)
        requires old(self).ok(),
        ensures final(buf)@.len() == old(buf)@.len(), final(self).data() == old(self).data(), final(self).ok(),
            old(self).pos() + old(buf)@.len() <= old(self).data().len() ==> r is Ok
                && final(buf)@ == old(self).data().subrange(old(self).pos(), old(self).pos() + old(buf)@.len())
                && final(self).pos() == old(self).pos() + old(buf)@.len(),
            old(self).pos() + old(buf)@.len() > old(self).data().len() ==> r is Err && eof_spec(r->Err_0),
    { unimplemented!() }
    #[verifier::external_body]
    fn stream_position(&mut self) -> (r: Result<u64, IoError>)
        requires old(self).ok(),
        ensures r is Ok && r->Ok_0 == old(self).pos(), final(self).data() == old(self).data(), final(self).pos() == old(self).pos(),
    { unimplemented!() }
    #[verifier::external_body]
    fn seek(&mut self, to: SeekFrom) -> (r: Result<u64, IoError>)
        requires old(self).ok(), seek_start(to) is Some, seek_start(to)->Some_0 <= 0x4000_0000_0000_0000,
        ensures r is Ok, final(self).data() == old(self).data(), final(self).pos() == seek_start(to)->Some_0,
    { unimplemented!() }
    #[verifier::external_body]
    fn position_or_zero(&mut self) -> (r: u64)
        ensures final(self).data() == old(self).data(), final(self).pos() == old(self).pos(),
    { unimplemented!() }
}
uninterp spec fn eof_spec(e: IoError) -> bool;
spec fn seek_start(to: SeekFrom) -> Option<u64> { match to { SeekFrom::Start(x) => Some(x), _ => None } }
#[verifier::external_body]
fn is_unexpected_eof(err: &IoError) -> (r: bool)
    ensures r == eof_spec(*err)
{ unimplemented!() }
#[verifier::external_body]
fn io_result<T>(result: Result<T, IoError>) -> (r: Result<T, SError>)
    ensures (r is Ok) == (result is Ok), r is Ok ==> r->Ok_0 == result->Ok_0,
{ unimplemented!() }
#[verifier::external_body]
fn system_error(err: IoError) -> (r: SError) { unimplemented!() }
#[verifier::external_body]
fn crc32c_of(buffer: &[u8]) -> (r: u32)
    ensures r == crc_of(buffer@),
{ unimplemented!() }

//@ extract sst/src/log.rs | const BLOCK_BITS
//@ end
//@ extract sst/src/log.rs | const BLOCK_SIZE
//@ post <<
        BLOCK_SIZE == 1048576,
//@ >>
//@ bodystart <<
    proof { assert(1u64 << 20 == 1048576) by (bit_vector); }
//@ >>
//@ end
//@ extract sst/src/log.rs | const HEADER_MAX_SIZE
//@ post <<
        HEADER_MAX_SIZE == 19,
//@ >>
//@ end
//@ extract sst/src/log.rs | const HEADER_WHOLE
//@ post <<
        HEADER_WHOLE == 1,
//@ >>
//@ end
//@ extract sst/src/log.rs | const HEADER_FIRST
//@ post <<
        HEADER_FIRST == 2,
//@ >>
//@ end
//@ extract sst/src/log.rs | const HEADER_SECOND
//@ post <<
        HEADER_SECOND == 3,
//@ >>
//@ end
//@ extract sst/src/lib.rs | const TABLE_FULL_SIZE
//@ post <<
        TABLE_FULL_SIZE == 1073741824 - 67108864,
//@ >>
//@ bodystart <<
    proof { assert(1usize << 30 == 1073741824) by (bit_vector); assert(1usize << 26 == 67108864) by (bit_vector); }
//@ >>
//@ end
//@ extract sst/src/log.rs | struct Header
//@ end

// the derive-generated decoder
#[verifier::external_body]
fn unpack_header(buf: &[u8]) -> (r: Result<Header, SError>)
    ensures (r is Ok) == (decode_hdr(buf@) is Some),
        r is Ok ==> decode_hdr(buf@) == Some((r->Ok_0.size, r->Ok_0.discriminant, r->Ok_0.crc32c)),
{ unimplemented!() }

//@ extract sst/src/lib.rs | fn corruption_header_size_exceeds_max
//@ external-body
//@ optional
//@ end
//@ extract sst/src/lib.rs | fn corruption_entry_size_exceeds_max
//@ external-body
//@ optional
//@ end
//@ extract sst/src/lib.rs | fn corruption_true_up_exceeds_header_max
//@ external-body
//@ optional
//@ end
//@ extract sst/src/lib.rs | fn corruption_crc_checksum_failed
//@ external-body
//@ optional
//@ end
//@ extract sst/src/lib.rs | fn corruption_truncation_no_second_header
//@ external-body
//@ optional
//@ end
//@ extract sst/src/lib.rs | fn corruption_invalid_discriminant
//@ external-body
//@ optional
//@ end

proof fn lemma_shift(offset: u64)
    ensures (offset >> 20) as int == offset as int / 1048576, (offset >> 20) < 0x1000_0000_0000,
{
    assert((offset >> 20) == offset / 1048576) by (bit_vector);
    assert((offset >> 20) < 0x1000_0000_0000) by (bit_vector);
}
proof fn lemma_shl(k: u64)
    requires k < 0x1000_0000_0000
    ensures (k << 20) as int == k as int * 1048576
{
    assert(k < 0x1000_0000_0000 ==> (k << 20) == k * 1048576) by (bit_vector);
}
// the next boundary at or after x
spec fn tu(x: int) -> int { if x % B == 0 { x } else { nb_of(x) } }
proof fn lemma_tu(x: int)
    requires x >= 0
    ensures tu(x) >= x, tu(x) - x < B, tu(x) % B == 0, nb_of(x) > x, nb_of(x) - x <= B, nb_of(x) % B == 0
{
    let q = x / B;
    vstd::arithmetic::div_mod::lemma_fundamental_div_mod(x, B);
    vstd::arithmetic::div_mod::lemma_mod_multiples_basic(q + 1, B);
    assert((q + 1) * B == q * B + B) by (nonlinear_arith);
    assert(B * q == q * B) by (nonlinear_arith);
}
//@ extract sst/src/log.rs | fn block_offset
//@ ret r
//@ post <<
        r as int == offset as int / 1048576, r < 0x1000_0000_0000,
//@ >>
//@ bodystart <<
    proof { lemma_shift(offset); }
//@ >>
//@ end
//@ extract sst/src/log.rs | fn next_boundary
//@ ret r
//@ pre <<
        offset <= 0x7fff_ffff_ffff_ffff,
//@ >>
//@ post <<
        r as int == nb_of(offset as int),
//@ >>
//@ bodystart <<
    proof {
        lemma_shift(offset);
        lemma_shl(((offset >> 20) + 1) as u64);
    }
//@ >>
//@ end
//@ extract sst/src/log.rs | fn compute_true_up
//@ ret r
//@ pre <<
        offset <= 0x7fff_ffff_ffff_ffff,
//@ >>
//@ post <<
        r as int == tu(offset as int),
//@ >>
//@ bodystart <<
    proof {
        lemma_shift(offset);
        lemma_shl((offset >> 20) as u64);
        let q = offset as int / 1048576;
        vstd::arithmetic::div_mod::lemma_fundamental_div_mod(offset as int, 1048576);
        vstd::arithmetic::div_mod::lemma_mod_multiples_basic(q, 1048576);
        assert(1048576 * q == q * 1048576) by (nonlinear_arith);
    }
//@ >>
//@ end

// ---------------------------------------------------------------- what the reader computes from D
enum HdrRes { Eof, Bad, Unspec, Hdr { size: u64, disc: u32, crc: u32, next: int } }
spec fn rd_header(d: Seq<u8>, x: int) -> HdrRes
    decreases d.len() - x
{
    if x < 0 || x >= d.len() { HdrRes::Eof }
    else if d[x] == 0 {
        let y = tu(x + 1);
        if y - (x + 1) > 19 || y < x + 1 { HdrRes::Unspec } else if y >= d.len() { HdrRes::Eof } else { rd_header(d, y) }
    } else if d[x] > 18 { HdrRes::Unspec }
    else {
        let s = d[x] as int;
        if x + 1 + s > d.len() { HdrRes::Bad }
        else {
            match decode_hdr(d.subrange(x + 1, x + 1 + s)) {
                None => HdrRes::Bad,
                Some(t) => if t.0 > TF { HdrRes::Unspec } else { HdrRes::Hdr { size: t.0, disc: t.1, crc: t.2, next: x + 1 + s } },
            }
        }
    }
}
enum FrameRes { Eof, Bad, Unspec, Frame { size: u64, disc: u32, crc: u32, payload: Seq<u8>, next: int } }
spec fn rd_frame(d: Seq<u8>, x: int) -> FrameRes {
    match rd_header(d, x) {
        HdrRes::Eof => FrameRes::Eof,
        HdrRes::Bad => FrameRes::Bad,
        HdrRes::Unspec => FrameRes::Unspec,
        HdrRes::Hdr { size, disc, crc, next } =>
            if next + size > d.len() { FrameRes::Bad }
            else {
                let payload = d.subrange(next, next + size);
                if crc_of(payload) != crc { FrameRes::Bad } else { FrameRes::Frame { size, disc, crc, payload, next: next + size } }
            },
    }
}
enum BatchRes { End, Bad, Unspec, Batch { bytes: Seq<u8>, next: int } }
spec fn rd_batch(d: Seq<u8>, x: int) -> BatchRes {
    match rd_frame(d, x) {
        FrameRes::Eof => BatchRes::End,
        FrameRes::Bad => BatchRes::Bad,
        FrameRes::Unspec => BatchRes::Unspec,
        FrameRes::Frame { size, disc, crc, payload, next } =>
            if disc == 1 { BatchRes::Batch { bytes: payload, next } }
            else if disc == 2 {
                let y = tu(next);
                if y - next > 19 { BatchRes::Unspec }
                else {
                    match rd_frame(d, y) {
                        FrameRes::Eof => BatchRes::Bad,
                        FrameRes::Bad => BatchRes::Bad,
                        FrameRes::Unspec => BatchRes::Unspec,
                        FrameRes::Frame { size: s2, disc: d2, crc: c2, payload: p2, next: n2 } =>
                            if d2 != 3 { BatchRes::Bad } else { BatchRes::Batch { bytes: payload + p2, next: n2 } },
                    }
                }
            } else { BatchRes::Bad },
    }
}


// ---------------------------------------------------------------- contract lemmas: the parse against the format
spec fn holds(d: Seq<u8>, x: int, a: Seq<u8>) -> bool { 0 <= x && x + a.len() <= d.len() && d.subrange(x, x + a.len()) == a }
proof fn lemma_holds_parts(d: Seq<u8>, x: int, a: Seq<u8>, b: Seq<u8>)
    requires holds(d, x, a + b)
    ensures holds(d, x, a), holds(d, x + a.len(), b)
{
    let ab = a + b;
    assert(d.subrange(x, x + a.len()) =~= a) by {
        assert forall|i: int| 0 <= i < a.len() implies d.subrange(x, x + a.len())[i] == a[i] by { assert(d.subrange(x, x + ab.len())[i] == ab[i]); }
    }
    assert(d.subrange(x + a.len(), x + a.len() + b.len()) =~= b) by {
        assert forall|i: int| 0 <= i < b.len() implies d.subrange(x + a.len(), x + a.len() + b.len())[i] == b[i] by { assert(d.subrange(x, x + ab.len())[a.len() + i] == ab[a.len() + i]); }
    }
}
// the only boundary within 19 bytes after x is where padding from x leads
proof fn lemma_pad_target(x: int, p: int)
    requires x >= 0, 0 < p <= 19, x % B != 0, (x + p) % B == 0
    ensures tu(x + 1) == x + p
{
    let y = x + 1;
    if p == 1 { }
    else {
        let q = y / B; let r = y % B; let m = (x + p) / B;
        vstd::arithmetic::div_mod::lemma_fundamental_div_mod(y, B);
        vstd::arithmetic::div_mod::lemma_fundamental_div_mod(x + p, B);
        vstd::arithmetic::div_mod::lemma_fundamental_div_mod(x, B);
        assert(x + p == B * m);
        assert(y == B * q + r && 0 <= r < B);
        // y is not a boundary: otherwise x + p - y = p - 1 in 1..=18 would be a multiple of B
        if r == 0 {
            assert(B * m - B * q == p - 1);
            assert(B * (m - q) == B * m - B * q) by (nonlinear_arith);
            assert(false) by (nonlinear_arith) requires B * (m - q) == p - 1, 0 < p - 1 < 19, B == 1048576;
        }
        assert(m == q + 1) by (nonlinear_arith) requires B * m == x + p, y == B * q + r, 0 < r < B, y == x + 1, 1 < p <= 19, B == 1048576;
        assert((q + 1) * B == B * m) by (nonlinear_arith) requires m == q + 1;
    }
}
proof fn lemma_pad_at(d: Seq<u8>, x: int, p: int)
    requires pad_ok(x, p), holds(d, x, zeros(p))
    ensures rd_header(d, x) == rd_header(d, x + p)
{
    if p > 0 {
        assert(d[x] == 0) by { assert(d.subrange(x, x + p)[0] == zeros(p)[0]); }
        lemma_pad_target(x, p);
        if x + p >= d.len() { assert(rd_header(d, x + p) == HdrRes::Eof); }
    }
}
proof fn lemma_hdr_at(d: Seq<u8>, x: int, size: u64, disc: u32, crc: u32)
    requires holds(d, x, hdr(size, disc, crc)), size <= TF
    ensures rd_header(d, x) == (HdrRes::Hdr { size, disc, crc, next: x + hdr(size, disc, crc).len() })
{
    let h = hdr(size, disc, crc);
    axiom_hdr_frame(size, disc, crc);
    assert(d[x] == h[0]) by { assert(d.subrange(x, x + h.len())[0] == h[0]); }
    let s = d[x] as int;
    assert(d.subrange(x + 1, x + 1 + s) =~= h.subrange(1, h.len() as int)) by {
        assert forall|i: int| 0 <= i < s implies d.subrange(x + 1, x + 1 + s)[i] == h.subrange(1, h.len() as int)[i] by { assert(d.subrange(x, x + h.len())[i + 1] == h[i + 1]); }
    }
}
proof fn lemma_frame_at(d: Seq<u8>, x: int, p: int, disc: u32, payload: Seq<u8>)
    requires pad_ok(x, p), payload.len() <= TF, holds(d, x, zeros(p) + hdr(payload.len() as u64, disc, crc_of(payload)) + payload)
    ensures rd_frame(d, x) == (FrameRes::Frame { size: payload.len() as u64, disc, crc: crc_of(payload), payload,
        next: x + p + hdr(payload.len() as u64, disc, crc_of(payload)).len() + payload.len() })
{
    let h = hdr(payload.len() as u64, disc, crc_of(payload));
    lemma_holds_parts(d, x, zeros(p) + h, payload);
    lemma_holds_parts(d, x, zeros(p), h);
    lemma_pad_at(d, x, p);
    lemma_hdr_at(d, x + p, payload.len() as u64, disc, crc_of(payload));
}

// what was appended is what is read back, and the reader then stands where the next append went
proof fn lemma_reads_back(d: Seq<u8>, o: int, buf: Seq<u8>, a: Seq<u8>)
    requires holds(d, o, a), appended_ok(o, buf, a), buf.len() <= TF
    ensures rd_batch(d, o) == (BatchRes::Batch { bytes: buf, next: o + a.len() })
{
    if exists|p: int| #[trigger] whole_layout(o, buf, a, p) {
        let p = choose|p: int| #[trigger] whole_layout(o, buf, a, p);
        lemma_frame_at(d, o, p, 1, buf);
    } else {
        let (p, f, q) = choose|p: int, f: int, q: int| #[trigger] split_layout(o, buf, a, p, f, q);
        let first = buf.subrange(0, f); let second = buf.subrange(f, buf.len() as int);
        let h1 = hdr(f as u64, 2, crc_of(first)); let h2 = hdr((buf.len() - f) as u64, 3, crc_of(second));
        axiom_hdr_frame(f as u64, 2, crc_of(first));
        let fr1 = zeros(p) + h1 + first;
        let rest = zeros(q) + h2 + second;
        assert(a =~= fr1 + rest);
        lemma_holds_parts(d, o, fr1, rest);
        lemma_frame_at(d, o, p, 2, first);
        let n1 = o + p + h1.len() + f;
        let nb = nb_of(o + p);
        // the reader trues up from the end of the first frame to the boundary where the writer put the second
        assert(tu(n1) == nb && nb - n1 == q) by {
            lemma_tu(o + p);
            if q > 0 {
                assert(n1 % B != 0) by {
                    lemma_tu(n1);
                    if n1 % B == 0 {
                        vstd::arithmetic::div_mod::lemma_fundamental_div_mod(n1, B);
                        vstd::arithmetic::div_mod::lemma_fundamental_div_mod(nb, B);
                        let m1 = n1 / B; let m2 = nb / B;
                        assert(B * m2 - B * m1 == q);
                        assert(B * (m2 - m1) == B * m2 - B * m1) by (nonlinear_arith);
                        assert(false) by (nonlinear_arith) requires B * (m2 - m1) == q, 0 < q <= 19, B == 1048576;
                    }
                }
                lemma_pad_target(n1, q);
                // tu(n1 + 1) == nb; and since n1 is not a boundary tu(n1) == nb_of(n1) == tu(n1 + 1) or n1 + 1 is the boundary
                lemma_tu(n1); lemma_tu(n1 + 1);
                let m = n1 / B;
                vstd::arithmetic::div_mod::lemma_fundamental_div_mod(n1, B);
                vstd::arithmetic::div_mod::lemma_fundamental_div_mod(nb, B);
                assert(nb_of(n1) == nb) by (nonlinear_arith)
                    requires nb_of(n1) == (n1 / B + 1) * B, n1 == B * (n1 / B) + n1 % B, 0 < n1 % B < B, nb == B * (nb / B), nb > n1, nb - n1 <= 19, B == 1048576;
            }
        }
        assert(zeros(0) =~= Seq::<u8>::empty());
        assert(rest =~= zeros(q) + (zeros(0) + h2 + second));
        lemma_holds_parts(d, n1, zeros(q), zeros(0) + h2 + second);
        lemma_frame_at(d, nb, 0, 3, second);
        assert(first + second =~= buf);
    }
}


// ---------------------------------------------------------------- torn tails
spec fn prefix_of(dp: Seq<u8>, d: Seq<u8>) -> bool { dp.len() <= d.len() && forall|i: int| 0 <= i < dp.len() ==> dp[i] == d[i] }
proof fn lemma_header_prefix(dp: Seq<u8>, d: Seq<u8>, x: int)
    requires prefix_of(dp, d), rd_header(dp, x) is Hdr
    ensures rd_header(d, x) == rd_header(dp, x), 0 <= rd_header(dp, x)->next <= dp.len()
    decreases dp.len() - x
{
    if dp[x] == 0 {
        let y = tu(x + 1);
        lemma_header_prefix(dp, d, y);
    } else {
        let s = dp[x] as int;
        assert(d.subrange(x + 1, x + 1 + s) =~= dp.subrange(x + 1, x + 1 + s));
    }
}
proof fn lemma_frame_prefix(dp: Seq<u8>, d: Seq<u8>, x: int)
    requires prefix_of(dp, d), rd_frame(dp, x) is Frame
    ensures rd_frame(d, x) == rd_frame(dp, x), rd_frame(dp, x)->next <= dp.len()
{
    lemma_header_prefix(dp, d, x);
    let n = rd_header(dp, x)->next; let sz = rd_header(dp, x)->size;
    assert(d.subrange(n, n + sz) =~= dp.subrange(n, n + sz));
}
// whatever batch is read from a file cut at any byte is read, identically, from the uncut file
proof fn lemma_prefix_stable(dp: Seq<u8>, d: Seq<u8>, x: int)
    requires prefix_of(dp, d), rd_batch(dp, x) is Batch
    ensures rd_batch(d, x) == rd_batch(dp, x), rd_batch(dp, x)->next <= dp.len()
{
    lemma_frame_prefix(dp, d, x);
    if rd_frame(dp, x)->disc == 2 {
        lemma_frame_prefix(dp, d, tu(rd_frame(dp, x)->Frame_next));
    }
}
// cutting the file: everything that was read completely below the cut is read identically, and the element the
// cut falls into is reported as end-of-log or as an error -- never as data, and never in an unspecified way
proof fn lemma_header_cut(d: Seq<u8>, c: int, x: int)
    requires rd_header(d, x) is Hdr, 0 <= c <= d.len()
    ensures
        rd_header(d, x)->next <= c ==> rd_header(d.subrange(0, c), x) == rd_header(d, x),
        rd_header(d, x)->next > c ==> rd_header(d.subrange(0, c), x) is Eof || rd_header(d.subrange(0, c), x) is Bad,
    decreases d.len() - x
{
    let dp = d.subrange(0, c);
    if x >= c { }
    else if d[x] == 0 {
        let y = tu(x + 1);
        if y < d.len() { lemma_header_cut(d, c, y); }
    } else {
        let s = d[x] as int;
        if x + 1 + s <= c { assert(dp.subrange(x + 1, x + 1 + s) =~= d.subrange(x + 1, x + 1 + s)); }
    }
}
proof fn lemma_frame_cut(d: Seq<u8>, c: int, x: int)
    requires rd_frame(d, x) is Frame, 0 <= c <= d.len()
    ensures
        rd_frame(d, x)->next <= c ==> rd_frame(d.subrange(0, c), x) == rd_frame(d, x),
        rd_frame(d, x)->next > c ==> rd_frame(d.subrange(0, c), x) is Eof || rd_frame(d.subrange(0, c), x) is Bad,
{
    let dp = d.subrange(0, c);
    lemma_header_cut(d, c, x);
    let n = rd_header(d, x)->next; let sz = rd_header(d, x)->size;
    lemma_header_prefix_nonneg(d, x);
    if n + sz <= c { assert(dp.subrange(n, n + sz) =~= d.subrange(n, n + sz)); }
}
proof fn lemma_header_prefix_nonneg(d: Seq<u8>, x: int)
    requires rd_header(d, x) is Hdr
    ensures 0 <= rd_header(d, x)->next <= d.len()
    decreases d.len() - x
{
    if d[x] == 0 { lemma_header_prefix_nonneg(d, tu(x + 1)); }
}
proof fn lemma_batch_cut(d: Seq<u8>, c: int, x: int)
    requires rd_batch(d, x) is Batch, 0 <= c <= d.len()
    ensures
        rd_batch(d, x)->next <= c ==> rd_batch(d.subrange(0, c), x) == rd_batch(d, x),
        rd_batch(d, x)->next > c ==> rd_batch(d.subrange(0, c), x) is End || rd_batch(d.subrange(0, c), x) is Bad,
{
    lemma_frame_cut(d, c, x);
    if rd_frame(d, x)->disc == 2 {
        let n1 = rd_frame(d, x)->Frame_next;
        lemma_frame_cut(d, c, tu(n1));
        lemma_header_prefix_nonneg(d, x);
        lemma_tu(n1);
        // the second frame ends after the first
        lemma_header_prefix_nonneg(d, tu(n1));
        lemma_header_mono(d, tu(n1));
    }
}
proof fn lemma_header_mono(d: Seq<u8>, x: int)
    requires rd_header(d, x) is Hdr
    ensures rd_header(d, x)->next > x
    decreases d.len() - x
{
    if d[x] == 0 { lemma_header_mono(d, tu(x + 1)); }
}
// a torn tail: the file cut anywhere inside the layout of an appended batch
proof fn lemma_torn_tail(d: Seq<u8>, o: int, buf: Seq<u8>, a: Seq<u8>, c: int)
    requires holds(d, o, a), appended_ok(o, buf, a), buf.len() <= TF, o <= c < o + a.len()
    ensures rd_batch(d.subrange(0, c), o) is End || rd_batch(d.subrange(0, c), o) is Bad
{
    lemma_reads_back(d, o, buf, a);
    lemma_batch_cut(d, c, o);
}

// ---------------------------------------------------------------- a whole log
// d from offset o on is the concatenation of the layouts of the batches bs
spec fn written(d: Seq<u8>, o: int, bs: Seq<Seq<u8>>) -> bool
    decreases bs.len()
{
    if bs.len() == 0 { o == d.len() }
    else { exists|a: Seq<u8>| #[trigger] holds(d, o, a) && appended_ok(o, bs[0], a) && bs[0].len() <= TF && written(d, o + a.len(), bs.drop_first()) }
}
// reading n batches from x and then reaching the end
spec fn rd_all(d: Seq<u8>, x: int, n: nat) -> Option<Seq<Seq<u8>>>
    decreases n
{
    if n == 0 { if rd_batch(d, x) is End { Some(Seq::<Seq<u8>>::empty()) } else { None } }
    else {
        match rd_batch(d, x) {
            BatchRes::Batch { bytes, next } => match rd_all(d, next, (n - 1) as nat) { Some(r) => Some(seq![bytes] + r), None => None },
            _ => None,
        }
    }
}
proof fn lemma_log_reads_back(d: Seq<u8>, o: int, bs: Seq<Seq<u8>>)
    requires 0 <= o, written(d, o, bs)
    ensures rd_all(d, o, bs.len()) == Some(bs)
    decreases bs.len()
{
    if bs.len() == 0 {
        assert(bs =~= Seq::<Seq<u8>>::empty());
    } else {
        let a = choose|a: Seq<u8>| #[trigger] holds(d, o, a) && appended_ok(o, bs[0], a) && bs[0].len() <= TF && written(d, o + a.len(), bs.drop_first());
        lemma_reads_back(d, o, bs[0], a);
        lemma_log_reads_back(d, o + a.len(), bs.drop_first());
        assert(seq![bs[0]] + bs.drop_first() =~= bs);
    }
}

// reading batches until something other than a batch comes back (at most n): what was read, and where it stopped
spec fn rd_seq(d: Seq<u8>, x: int, n: nat) -> (Seq<Seq<u8>>, int)
    decreases n
{
    if n == 0 { (Seq::<Seq<u8>>::empty(), x) }
    else {
        match rd_batch(d, x) {
            BatchRes::Batch { bytes, next } => (seq![bytes] + rd_seq(d, next, (n - 1) as nat).0, rd_seq(d, next, (n - 1) as nat).1),
            _ => (Seq::<Seq<u8>>::empty(), x),
        }
    }
}
// a log cut at ANY byte reads back as a prefix of the appended batches and then ends or reports an error
proof fn lemma_log_cut(d: Seq<u8>, o: int, bs: Seq<Seq<u8>>, c: int)
    requires 0 <= o <= c <= d.len(), written(d, o, bs)
    ensures ({
        let dp = d.subrange(0, c);
        let r = rd_seq(dp, o, bs.len());
        &&& r.0.len() <= bs.len() && r.0 == bs.subrange(0, r.0.len() as int)
        &&& rd_batch(dp, r.1) is End || rd_batch(dp, r.1) is Bad
    })
    decreases bs.len()
{
    let dp = d.subrange(0, c);
    if bs.len() == 0 {
        assert(dp =~= d);
        assert(rd_seq(dp, o, 0).0 =~= bs.subrange(0, 0));
    } else {
        let a = choose|a: Seq<u8>| #[trigger] holds(d, o, a) && appended_ok(o, bs[0], a) && bs[0].len() <= TF && written(d, o + a.len(), bs.drop_first());
        lemma_reads_back(d, o, bs[0], a);
        lemma_batch_cut(d, c, o);
        if o + a.len() <= c {
            lemma_log_cut(d, o + a.len(), bs.drop_first(), c);
            let r1 = rd_seq(dp, o + a.len(), (bs.len() - 1) as nat);
            let r = rd_seq(dp, o, bs.len());
            assert(r.0 == seq![bs[0]] + r1.0);
            assert(r.0 =~= bs.subrange(0, r.0.len() as int)) by {
                assert forall|i: int| 0 <= i < r.0.len() implies r.0[i] == bs[i] by {
                    if i > 0 { assert(r1.0[i - 1] == bs.drop_first().subrange(0, r1.0.len() as int)[i - 1]); }
                }
            }
        } else {
            assert(rd_seq(dp, o, bs.len()).0 =~= bs.subrange(0, 0));
        }
    }
}

// only the fields these methods touch (the real struct is generic over R: Read + Seek)
struct LogIterator { input: Input, buffer: Vec<u8>, buffer_idx: usize }
//@ extract sst/src/lib.rs | struct KeyValueRef
//@ end

// decoding the entries inside a loaded batch is not interpreted here (derive-generated KeyValueEntry codec)
uninterp spec fn nfb_post(pre: LogIterator, post: LogIterator, r: Result<Option<KeyValueRef<'_>>, SError>) -> bool;

// what one call of next() does
spec fn next_post(pre: LogIterator, post: LogIterator, r: Result<Option<KeyValueRef<'_>>, SError>) -> bool {
    if pre.buffer_idx < pre.buffer@.len() { nfb_post(pre, post, r) }
    else {
        match rd_batch(pre.input.data(), pre.input.pos()) {
            BatchRes::End => r is Ok && r->Ok_0 is None && post.input.data() == pre.input.data(),
            BatchRes::Bad => r is Err,
            BatchRes::Unspec => true,
            BatchRes::Batch { bytes, next } => exists|m: LogIterator| m.input.data() == pre.input.data() && m.input.pos() == next
                && m.buffer@ == bytes && m.buffer_idx == 0 && #[trigger] nfb_post(m, post, r),
        }
    }
}

// `self.buffer.resize(n, 0); let buffer = &mut self.buffer[start..]; io_result(self.input.read_exact(buffer))?;`
// is read through this helper (Verus has no mutable sub-slice borrow of a Vec); the crc is then taken of the tail
#[verifier::external_body]
fn read_tail(input: &mut Input, buffer: &mut Vec<u8>, start: usize, n: usize) -> (r: Result<(), IoError>)
    requires old(input).ok(), start == old(buffer)@.len(), start <= n,
    ensures final(input).data() == old(input).data(), final(input).ok(), final(buffer)@.len() == n,
        final(buffer)@.subrange(0, start as int) == old(buffer)@,
        old(input).pos() + (n - start) <= old(input).data().len() ==> r is Ok
            && final(buffer)@.subrange(start as int, n as int) == old(input).data().subrange(old(input).pos(), old(input).pos() + (n - start))
            && final(input).pos() == old(input).pos() + (n - start),
        old(input).pos() + (n - start) > old(input).data().len() ==> r is Err,
{ unimplemented!() }
#[verifier::external_body]
fn tail_of(buffer: &Vec<u8>, start: usize) -> (r: &[u8])
    requires start <= buffer@.len(),
    ensures r@ == buffer@.subrange(start as int, buffer@.len() as int),
{ unimplemented!() }

impl LogIterator {
//@ extract sst/src/log.rs | impl LogIterator<R> :: fn next_from_buffer
//@ ret r
//@ post <<
        nfb_post(*old(self), *final(self), r),
//@ >>
//@ external-body
//@ end

//@ extract sst/src/log.rs | impl LogIterator<R> :: fn next
//@ ret r
//@ rewrite-re X7 `self\.input\.stream_position\(\)\.unwrap_or\(0\)` => `self.input.position_or_zero()`
//@ pre <<
        old(self).input.ok(),
//@ >>
//@ post <<
        next_post(*old(self), *final(self), r),
//@ >>
//@ beforeall `self.next_from_buffer()` <<
        proof {
            let cur = *self;
            /* tail-post */ assert forall|post: LogIterator, rr: Result<Option<KeyValueRef<'_>>, SError>| nfb_post(cur, post, rr) implies next_post(*old(self), post, rr) by { }
        }
//@ >>
//@ end

//@ extract sst/src/log.rs | impl LogIterator<R> :: fn true_up
//@ ret r
//@ pre <<
        old(self).input.ok(),
//@ >>
//@ post <<
        final(self).input.data() == old(self).input.data(), final(self).buffer == old(self).buffer, final(self).buffer_idx == old(self).buffer_idx,
        final(self).input.ok(),
        tu(old(self).input.pos()) - old(self).input.pos() <= 19 ==> r is Ok,
        r is Ok ==> final(self).input.pos() == tu(old(self).input.pos()),
//@ >>
//@ bodystart <<
        proof { lemma_tu(self.input.pos()); }
//@ >>
//@ end

//@ extract sst/src/log.rs | impl LogIterator<R> :: fn next_header
//@ ret r
//@ rewrite X7 `if err.kind() == ErrorKind::UnexpectedEof {` => `if is_unexpected_eof(&err) {`
//@ rewrite-re X7 `self\.input\.stream_position\(\)\.unwrap_or\(0\)` => `self.input.position_or_zero()`
//@ rewrite-re X7 `<Header as Unpackable>::unpack\(header\)\s*\.map_err\(unpack_log_header\)\?\s*\.0` => `unpack_header(header)?`
//@ pre <<
        old(self).input.ok(),
//@ >>
//@ post <<
        final(self).input.data() == old(self).input.data(), final(self).buffer == old(self).buffer, final(self).buffer_idx == old(self).buffer_idx,
        final(self).input.ok(),
        r is Ok && r->Ok_0 is Some ==> r->Ok_0->Some_0.size <= 1073741824 - 67108864,
        match rd_header(old(self).input.data(), old(self).input.pos()) {
            HdrRes::Eof => r is Ok && r->Ok_0 is None,
            HdrRes::Bad => r is Err,
            HdrRes::Unspec => true,
            HdrRes::Hdr { size, disc, crc, next } => r is Ok && r->Ok_0 is Some && r->Ok_0->Some_0.size == size && r->Ok_0->Some_0.discriminant == disc
                && r->Ok_0->Some_0.crc32c == crc && final(self).input.pos() == next,
        },
//@ >>
//@ bodystart <<
        let ghost d = self.input.data();
        let ghost x0 = self.input.pos();
//@ >>
//@ loop 0 <<
            invariant
                self.input.ok(), self.input.data() == d, self.buffer == old(self).buffer, self.buffer_idx == old(self).buffer_idx,
                rd_header(d, x0) is Unspec || rd_header(d, self.input.pos()) == rd_header(d, x0), d == old(self).input.data(), x0 == old(self).input.pos(),
            decreases (if self.input.pos() < d.len() { d.len() - self.input.pos() } else { 0 }),
//@ >>
//@ before? `continue 'looping;` <<
                proof { lemma_tu(self.input.pos()); }
//@ >>
//@ end

//@ extract sst/src/log.rs | impl LogIterator<R> :: fn next_frame
//@ ret r
//@ rewrite-re X7 `self\.buffer\.resize\(buffer_new_sz, 0\);\s*let buffer = &mut self\.buffer\[buffer_start_sz\.\.\];\s*io_result\(self\.input\.read_exact\(buffer\)\)\?;` => `io_result(read_tail(&mut self.input, &mut self.buffer, buffer_start_sz, buffer_new_sz))?; let buffer = tail_of(&self.buffer, buffer_start_sz);`
//@ rewrite-re X7 `crc32c::crc32c\(` => `crc32c_of(`
//@ rewrite-re X7 `self\.input\.stream_position\(\)\.unwrap_or\(0\)` => `self.input.position_or_zero()`
//@ pre <<
        old(self).input.ok(), old(self).buffer@.len() <= 0x4000_0000,
//@ >>

//@ post <<
        final(self).input.data() == old(self).input.data(), final(self).buffer_idx == old(self).buffer_idx,
        final(self).input.ok(),
        r is Ok ==> final(self).buffer@.len() <= old(self).buffer@.len() + (1073741824 - 67108864),
        match rd_frame(old(self).input.data(), old(self).input.pos()) {
            FrameRes::Eof => r is Ok && r->Ok_0 is None && final(self).buffer@ == old(self).buffer@,
            FrameRes::Bad => r is Err,
            FrameRes::Unspec => true,
            FrameRes::Frame { size, disc, crc, payload, next } => r is Ok && r->Ok_0 is Some && r->Ok_0->Some_0.size == size && r->Ok_0->Some_0.discriminant == disc
                && r->Ok_0->Some_0.crc32c == crc && final(self).input.pos() == next && final(self).buffer@ == old(self).buffer@ + payload,
        },
//@ >>
//@ end
}

//@ contract-lemma lemma_reads_back
//@ contract-lemma lemma_prefix_stable
//@ contract-lemma lemma_torn_tail
//@ contract-lemma lemma_batch_cut
//@ contract-lemma lemma_log_cut
//@ contract-lemma lemma_log_reads_back
//@ min-verified 40
} // verus!
fn main() {}
