// Unit sst_multi (C05 "every split of outputs into files", C10): sst::SstMultiBuilder -- the builder a compaction writes
// through, which cuts its input into numbered files -- extracted verbatim (new, split_hint, get_builder, put, del, seal) and
// proved, for any number of entries, any file-size options and any split hints:
//   * every accepted put / tombstone is appended, once, to the concatenation of what the files hold: nothing is lost or
//     duplicated at a file boundary, a split hint changes nothing;
//   * every builder that is started is sealed before the next one is started or the multi-builder is sealed;
//   * the paths handed back by seal() are exactly the files written, numbered 0, 1, 2, ... and pairwise distinct, and their
//     contents concatenated are the entries accepted.
// `file_of(p)` is what the file at path p holds once the builder writing it has been sealed (a fixed function of the
// path: each path is written by one builder only -- that is the distinctness obligation); SstBuilder::seal states
// `file_of(path) == stream`.
// ASSUMED: SstBuilder as proved in unit sst_builder (put / del append the entry to its stream on Ok); the numbered path is
// an injective function of the counter; after an Err the multi-builder is not used again.
use vstd::prelude::*;
verus! {
global size_of usize == 8;

struct Ent { key: Seq<u8>, ts: u64, val: Option<Seq<u8>> }
#[verifier::external_body]
struct SError { _p: u8 }
#[verifier::external_body]
struct PathBuf { _p: u8 }
#[verifier::external_body]
struct Suffix { _p: u8 }
#[verifier::external_body]
struct Sst { _p: u8 }
#[verifier::external_body]
struct OtherOptions { _p: u8 }
struct SstOptions { minimum_file_size: usize, target_file_size: usize, rest: OtherOptions }
//@ extract sst/src/lib.rs | const TABLE_FULL_SIZE
//@ post <<
        TABLE_FULL_SIZE == 1073741824 - 67108864,
//@ >>
//@ bodystart <<
    proof { assert(1usize << 30 == 1073741824) by (bit_vector); assert(1usize << 26 == 67108864) by (bit_vector); }
//@ >>
//@ end

pub assume_specification<T> [core::mem::drop::<T>] (t: T);
uninterp spec fn file_of(p: PathBuf) -> Seq<Ent>;
// `prefix.join(PathBuf::from(format!("{}{}", counter, suffix)))`
uninterp spec fn path_n(prefix: PathBuf, n: int, suffix: Suffix) -> PathBuf;
#[verifier::external_body]
proof fn axiom_path_injective(prefix: PathBuf, suffix: Suffix, a: int, b: int)
    ensures path_n(prefix, a, suffix) == path_n(prefix, b, suffix) ==> a == b
{ }
// a Vec of a non-zero-sized type never holds more than isize::MAX elements (its allocation is at most isize::MAX bytes)
#[verifier::external_body]
proof fn axiom_vec_len(v: &Vec<PathBuf>) ensures v@.len() <= 0x7fff_ffff_ffff_ffff { }
#[verifier::external_body]
fn numbered_path(prefix: &PathBuf, counter: u64, suffix: &Suffix) -> (r: PathBuf)
    ensures r == path_n(*prefix, counter as int, *suffix),
{ unimplemented!() }
#[verifier::external_body]
fn clone_path(p: &PathBuf) -> (r: PathBuf) ensures r == *p { unimplemented!() }
#[verifier::external_body]
fn clone_options(o: &SstOptions) -> (r: SstOptions) ensures r == *o { unimplemented!() }

#[verifier::external_body]
struct SstBuilder { _p: u8 }
impl SstBuilder {
    uninterp spec fn stream(&self) -> Seq<Ent>;
    uninterp spec fn path(&self) -> PathBuf;
    #[verifier::external_body]
    fn new(options: SstOptions, path: PathBuf) -> (r: Result<SstBuilder, SError>)
        ensures r is Ok ==> r->Ok_0.stream() == Seq::<Ent>::empty() && r->Ok_0.path() == path,
    { unimplemented!() }
    #[verifier::external_body]
    fn approximate_size(&self) -> (r: usize) { unimplemented!() }
    #[verifier::external_body]
    fn put(&mut self, key: &[u8], timestamp: u64, value: &[u8]) -> (r: Result<(), SError>)
        ensures final(self).path() == old(self).path(),
            r is Ok ==> final(self).stream() == old(self).stream().push(Ent { key: key@, ts: timestamp, val: Some(value@) }),
    { unimplemented!() }
    #[verifier::external_body]
    fn del(&mut self, key: &[u8], timestamp: u64) -> (r: Result<(), SError>)
        ensures final(self).path() == old(self).path(),
            r is Ok ==> final(self).stream() == old(self).stream().push(Ent { key: key@, ts: timestamp, val: None }),
    { unimplemented!() }
    // sealing fixes what the file at the builder's path holds
    #[verifier::external_body]
    fn seal(self) -> (r: Result<Sst, SError>)
        ensures r is Ok ==> file_of(self.path()) == self.stream(),
    { unimplemented!() }
}

struct SstMultiBuilder { prefix: PathBuf, suffix: Suffix, counter: u64, options: SstOptions, builder: Option<SstBuilder>, paths: Vec<PathBuf> }

// the contents of the first n files, concatenated
spec fn files_upto(paths: Seq<PathBuf>, n: int) -> Seq<Ent>
    decreases n
{
    if n <= 0 { Seq::<Ent>::empty() } else { files_upto(paths, n - 1) + file_of(paths[n - 1]) }
}
proof fn lemma_files_prefix(p: Seq<PathBuf>, q: Seq<PathBuf>, n: int)
    requires 0 <= n <= p.len(), n <= q.len(), forall|i: int| 0 <= i < n ==> p[i] == q[i]
    ensures files_upto(p, n) == files_upto(q, n)
    decreases n
{
    if n > 0 { lemma_files_prefix(p, q, n - 1); }
}

impl SstMultiBuilder {
    // files whose builder has been sealed
    spec fn nsealed(&self) -> int { if self.builder is Some { self.counter as int - 1 } else { self.counter as int } }
    // every entry accepted so far, in order: the sealed files, then what the current builder holds
    spec fn out(&self) -> Seq<Ent> {
        files_upto(self.paths@, self.nsealed()) + (if self.builder is Some { self.builder->Some_0.stream() } else { Seq::<Ent>::empty() })
    }
    spec fn mwf(&self) -> bool {
        &&& self.paths@.len() == self.counter
        &&& forall|i: int| 0 <= i < self.paths@.len() ==> #[trigger] self.paths@[i] == path_n(self.prefix, i, self.suffix)
        &&& self.builder is Some ==> self.counter >= 1 && self.builder->Some_0.path() == self.paths@[self.counter as int - 1]
    }
    proof fn lemma_paths_distinct(&self, i: int, j: int)
        requires self.mwf(), 0 <= i < j < self.paths@.len()
        ensures self.paths@[i] != self.paths@[j]
    { axiom_path_injective(self.prefix, self.suffix, i, j); }

//@ extract sst/src/lib.rs | impl SstMultiBuilder :: fn new
//@ ret r
//@ rewrite-re X4 `suffix: String` => `suffix: Suffix`
//@ post <<
        r.mwf(), r.out() == Seq::<Ent>::empty(), r.builder is None,
//@ >>
//@ end

//@ extract sst/src/lib.rs | impl SstMultiBuilder :: fn split_hint
//@ ret r
//@ pre <<
        old(self).mwf(),
//@ >>
//@ post <<
        r is Ok ==> final(self).mwf() && final(self).out() == old(self).out(),
//@ >>
//@ before? `builder.seal()?;` <<
                let ghost st = builder.stream();
//@ >>
//@ after? `builder.seal()?;` <<
                proof {
                    assert(file_of(self.paths@[self.counter as int - 1]) == st);
                    assert(files_upto(self.paths@, self.counter as int) == files_upto(self.paths@, self.counter as int - 1) + st);
                }
//@ >>
//@ end

//@ extract sst/src/lib.rs | impl SstMultiBuilder :: fn get_builder
//@ ret r
//@ rewrite-re X7 `let path = self\s*\.prefix\s*\.join\(PathBuf::from\(format!\("\{\}\{\}", self\.counter, self\.suffix\)\)\);` => `let path = numbered_path(&self.prefix, self.counter, &self.suffix);`
//@ rewrite-re? X12 `\bpath\.clone\(\)` => `clone_path(&path)`
//@ rewrite-re? X12 `self\.options\.clone\(\)` => `clone_options(&self.options)`
//@ pre <<
        old(self).mwf(),
//@ >>
//@ post <<
        r is Ok ==> final(self).builder == Some(*final(r->Ok_0))
            && final(self).prefix == old(self).prefix && final(self).suffix == old(self).suffix && final(self).options == old(self).options
            && final(self).counter >= 1 && final(self).paths@.len() == final(self).counter
            && (forall|i: int| 0 <= i < final(self).paths@.len() ==> #[trigger] final(self).paths@[i] == path_n(old(self).prefix, i, old(self).suffix))
            && r->Ok_0.path() == final(self).paths@[final(self).counter as int - 1]
            // nothing accepted so far has moved
            && files_upto(final(self).paths@, final(self).counter as int - 1) + r->Ok_0.stream() == old(self).out(),
//@ >>
//@ dec <<
        (if old(self).builder is Some { 1int } else { 0int }),
//@ >>
//@ bodystart <<
        proof { axiom_vec_len(&self.paths); }
//@ >>
//@ before? `builder.seal()?;` <<
                let ghost st = builder.stream();
//@ >>
//@ after? `builder.seal()?;` <<
                proof {
                    assert(file_of(self.paths@[self.counter as int - 1]) == st);
                    assert(files_upto(self.paths@, self.counter as int) == files_upto(self.paths@, self.counter as int - 1) + st);
                    assert(self.out() =~= old(self).out());
                }
//@ >>
//@ before? `let path = numbered_path(` <<
        let ghost p0 = self.paths@;
        let ghost out0 = self.out();
//@ >>
//@ before#2 `Ok(self.builder.as_mut().unwrap())` <<
        proof {
            lemma_files_prefix(p0, self.paths@, p0.len() as int);
            assert(out0 =~= files_upto(p0, p0.len() as int));
        }
//@ >>
//@ end
}

impl SstMultiBuilder {
    // Builder::put / del / seal for SstMultiBuilder (the trait-impl header is dropped)
//@ extract sst/src/lib.rs | impl Builder for SstMultiBuilder :: fn put
//@ ret r
//@ pre <<
        old(self).mwf(),
//@ >>
//@ post <<
        r is Ok ==> final(self).mwf() && final(self).out() == old(self).out().push(Ent { key: key@, ts: timestamp, val: Some(value@) }),
//@ >>
//@ end
//@ extract sst/src/lib.rs | impl Builder for SstMultiBuilder :: fn del
//@ ret r
//@ pre <<
        old(self).mwf(),
//@ >>
//@ post <<
        r is Ok ==> final(self).mwf() && final(self).out() == old(self).out().push(Ent { key: key@, ts: timestamp, val: None }),
//@ >>
//@ end
//@ extract sst/src/lib.rs | impl Builder for SstMultiBuilder :: fn seal
//@ ret r
//@ rewrite X22 `fn seal(mut self)` => `fn seal(self)`
//@ rewrite-re X22 `\bself\.` => `this.`
//@ bodystart <<
        let mut this = self;   // X22: Verus has no `mut self` parameter; the body works on this binding
//@ >>
//@ pre <<
        self.mwf(),
//@ >>
//@ post <<
        // the files handed back hold, concatenated, exactly what was accepted; they are numbered and pairwise distinct
        r is Ok ==> files_upto(r->Ok_0@, r->Ok_0@.len() as int) == self.out()
            && (forall|i: int| 0 <= i < r->Ok_0@.len() ==> #[trigger] r->Ok_0@[i] == path_n(self.prefix, i, self.suffix)),
//@ >>
//@ end
}

//@ min-verified 7
} // verus!
fn main() {}
