// Unit lsmtk_scan (C03): what a range scan denotes.
//
// The C11 units establish, per combinator, `view(cursor) == definition(views of children)`.  A cursor
// over a strictly sorted sequence with unique (key, timestamp) pairs is determined by its SET of
// entries, so the definitions are stated here over entry sets:
//     merge = union, concat = union (given ordered children), restrict = filter by key interval,
//     prune(t) = per key the newest version <= t, dropped when it is a tombstone,
//     prune_keep(t) = per key the newest version <= t (tombstones kept).
// The term below the splice marker is extracted mechanically from the bodies of
// KeyValueStore::range_scan / MemTable::range_scan / Version::range_scan / LsmTree::range_scan on every
// run (tools/compose.py); the obligation is the equation of property C03:
//     term == restrict(prune(all entries of the snapshot, read timestamp), bounds).
use vstd::prelude::*;
use std::ops::Bound;
use vstd::iset::*;
verus! {
global size_of usize == 8;

pub struct Entry { pub key: Seq<u8>, pub ts: int, pub val: Option<Seq<u8>> }
pub enum SB { Unbounded, Incl(Seq<u8>), Excl(Seq<u8>) }
pub type ES = ISet<Entry>;

// ---------------------------------------------------------------- byte-lexicographic order
pub open spec fn lex_le(a: Seq<u8>, b: Seq<u8>) -> bool
    decreases a.len()
{
    if a.len() == 0 { true }
    else if b.len() == 0 { false }
    else if a[0] < b[0] { true }
    else if a[0] > b[0] { false }
    else { lex_le(a.subrange(1, a.len() as int), b.subrange(1, b.len() as int)) }
}
pub open spec fn lex_lt(a: Seq<u8>, b: Seq<u8>) -> bool { lex_le(a, b) && a != b }

proof fn lemma_lex_trans(a: Seq<u8>, b: Seq<u8>, c: Seq<u8>)
    requires lex_le(a, b), lex_le(b, c)
    ensures lex_le(a, c)
    decreases a.len()
{
    if a.len() == 0 { } else if b.len() == 0 { } else if c.len() == 0 { } else if a[0] < b[0] { } else if b[0] < c[0] { } else {
        lemma_lex_trans(a.subrange(1, a.len() as int), b.subrange(1, b.len() as int), c.subrange(1, c.len() as int));
    }
}
proof fn lemma_lex_antisym(a: Seq<u8>, b: Seq<u8>)
    requires lex_le(a, b), lex_le(b, a)
    ensures a == b
    decreases a.len()
{
    if a.len() == 0 { assert(b.len() == 0); assert(a =~= b); } else if b.len() == 0 { } else {
        let a1 = a.subrange(1, a.len() as int); let b1 = b.subrange(1, b.len() as int);
        lemma_lex_antisym(a1, b1);
        assert(a =~= seq![a[0]] + a1);
        assert(b =~= seq![b[0]] + b1);
    }
}
proof fn lemma_lex_total(a: Seq<u8>, b: Seq<u8>)
    ensures lex_le(a, b) || lex_le(b, a)
    decreases a.len()
{
    if a.len() == 0 { } else if b.len() == 0 { } else if a[0] != b[0] { } else {
        lemma_lex_total(a.subrange(1, a.len() as int), b.subrange(1, b.len() as int));
    }
}
proof fn lemma_lex_refl(a: Seq<u8>)
    ensures lex_le(a, a)
    decreases a.len()
{
    if a.len() != 0 { lemma_lex_refl(a.subrange(1, a.len() as int)); }
}

// verified replacements for `x <= y` / `x < y` on byte slices (rule X9)
fn bytes_le(a: &[u8], b: &[u8]) -> (r: bool)
    ensures r == lex_le(a@, b@)
{
    let mut i: usize = 0;
    proof { assert(a@.subrange(0, a@.len() as int) =~= a@); assert(b@.subrange(0, b@.len() as int) =~= b@); }
    while i < a.len() && i < b.len()
        invariant
            i <= a.len(), i <= b.len(),
            lex_le(a@, b@) == lex_le(a@.subrange(i as int, a@.len() as int), b@.subrange(i as int, b@.len() as int)),
        decreases a.len() - i,
    {
        let ghost sa = a@.subrange(i as int, a@.len() as int);
        let ghost sb = b@.subrange(i as int, b@.len() as int);
        assert(sa[0] == a@[i as int] && sb[0] == b@[i as int]);
        if a[i] < b[i] { return true; }
        if a[i] > b[i] { return false; }
        assert(sa.subrange(1, sa.len() as int) =~= a@.subrange(i as int + 1, a@.len() as int));
        assert(sb.subrange(1, sb.len() as int) =~= b@.subrange(i as int + 1, b@.len() as int));
        i += 1;
    }
    assert(a@.subrange(i as int, a@.len() as int).len() == a@.len() - i);
    i == a.len()
}
fn bytes_lt(a: &[u8], b: &[u8]) -> (r: bool)
    ensures r == lex_lt(a@, b@)
{
    let le = bytes_le(a, b);
    if !le { return false; }
    let ge = bytes_le(b, a);
    proof { if ge { lemma_lex_antisym(a@, b@); } else { assert(a@ != b@) by { if a@ == b@ { lemma_lex_refl(a@); } } } }
    !ge
}

// ---------------------------------------------------------------- bounds
pub open spec fn in_lo(k: Seq<u8>, b: SB) -> bool {
    match b { SB::Unbounded => true, SB::Incl(x) => lex_le(x, k), SB::Excl(x) => lex_lt(x, k) }
}
pub open spec fn in_hi(k: Seq<u8>, b: SB) -> bool {
    match b { SB::Unbounded => true, SB::Incl(y) => lex_le(k, y), SB::Excl(y) => lex_lt(k, y) }
}
// some key satisfies `lo` as a start bound and `hi` as an end bound
pub open spec fn overlaps(lo: SB, hi: SB) -> bool { exists|k: Seq<u8>| in_lo(k, lo) && in_hi(k, hi) }

// ---------------------------------------------------------------- the real overlap test of Version::range_scan
pub uninterp spec fn bytes_of<T>(t: T) -> Seq<u8>;
pub open spec fn sb_of<T>(b: std::ops::Bound<T>) -> SB {
    match b {
        std::ops::Bound::Unbounded => SB::Unbounded,
        std::ops::Bound::Included(x) => SB::Incl(bytes_of(x)),
        std::ops::Bound::Excluded(x) => SB::Excl(bytes_of(x)),
    }
}
pub open spec fn sb_of_slice(b: std::ops::Bound<&[u8]>) -> SB {
    match b {
        std::ops::Bound::Unbounded => SB::Unbounded,
        std::ops::Bound::Included(x) => SB::Incl(x@),
        std::ops::Bound::Excluded(x) => SB::Excl(x@),
    }
}

// ASSUMED (rule X7): `x.as_ref()` yields the bytes of x; AsRef is an external trait Verus cannot
// specify generically here.  The match itself is three lines of re-wrapping.
//@ extract lsmtk/src/tree/mod.rs | impl Version :: fn range_scan :: fn bound_to_bound
//@ prefix #[verifier::allow(undeclared_external_trait)]
//@ ret r
//@ post <<
        sb_of_slice(r) == sb_of(*u),
//@ >>
//@ external-body
//@ end

// the overlap test is SOUND: whenever some key lies at/after `lhs` and at/before `rhs`, it says true
// (so a file is skipped only when none of its keys can be inside the scan bounds)
//@ extract lsmtk/src/tree/mod.rs | impl Version :: fn range_scan :: fn compare_bounds_le
//@ prefix #[verifier::allow(undeclared_external_trait)]
//@ ret r
//@ rewrite-re? X9 `=> x <= y,` => `=> bytes_le(x, y),`
//@ rewrite-re? X9 `=> x < y,` => `=> bytes_lt(x, y),`
//@ rewrite-re? X9 `=> x >= y,` => `=> bytes_le(y, x),`
//@ rewrite-re? X9 `=> x > y,` => `=> bytes_lt(y, x),`
//@ post <<
        overlaps(sb_of(lhs), sb_of(rhs)) ==> r,
//@ >>
//@ bodystart <<
    proof {
        assert forall|k: Seq<u8>| in_lo(k, sb_of(lhs)) && in_hi(k, sb_of(rhs)) implies
            (match (sb_of(lhs), sb_of(rhs)) {
                (SB::Incl(x), SB::Incl(y)) => lex_le(x, y),
                (SB::Incl(x), SB::Excl(y)) => lex_lt(x, y),
                (SB::Excl(x), SB::Incl(y)) => lex_lt(x, y),
                (SB::Excl(x), SB::Excl(y)) => lex_lt(x, y),
                _ => true,
            }) by {
            match (sb_of(lhs), sb_of(rhs)) {
                (SB::Incl(x), SB::Incl(y)) => { lemma_lex_trans(x, k, y); }
                (SB::Incl(x), SB::Excl(y)) => { lemma_lex_trans(x, k, y); if x == y { lemma_lex_antisym(x, k); } }
                (SB::Excl(x), SB::Incl(y)) => { lemma_lex_trans(x, k, y); if x == y { lemma_lex_antisym(x, k); } }
                (SB::Excl(x), SB::Excl(y)) => { lemma_lex_trans(x, k, y); if x == y { lemma_lex_antisym(x, k); } }
                _ => {}
            }
        }
    }
//@ >>
//@ end

// ---------------------------------------------------------------- cursor definitions over entry sets
pub open spec fn restrict(s: ES, lo: SB, hi: SB) -> ES { ISet::new(|e: Entry| s.contains(e) && in_lo(e.key, lo) && in_hi(e.key, hi)) }
pub open spec fn newest_le(s: ES, t: int, e: Entry) -> bool {
    s.contains(e) && e.ts <= t && forall|f: Entry| #[trigger] s.contains(f) && f.key == e.key && f.ts <= t ==> f.ts <= e.ts
}
pub open spec fn prune(s: ES, t: int) -> ES { ISet::new(|e: Entry| newest_le(s, t, e) && e.val is Some) }
pub open spec fn prune_keep(s: ES, t: int) -> ES { ISet::new(|e: Entry| newest_le(s, t, e)) }
pub open spec fn union_over<A>(xs: Seq<A>, f: spec_fn(A) -> ES) -> ES {
    ISet::new(|e: Entry| exists|i: int| 0 <= i < xs.len() && #[trigger] f(xs[i]).contains(e))
}

// a loop over xs that stops at the first element satisfying `stop` (an early `break` at the top of the loop body)
pub open spec fn union_over_prefix<A>(xs: Seq<A>, stop: spec_fn(A) -> bool, f: spec_fn(A) -> ES) -> ES {
    ISet::new(|e: Entry| exists|i: int| 0 <= i < xs.len() && (forall|j: int| 0 <= j <= i ==> !stop(xs[j])) && #[trigger] f(xs[i]).contains(e))
}

// ---------------------------------------------------------------- the snapshot a scan is taken of
pub struct FileMd { pub entries: ES, pub first_key: Seq<u8>, pub last_key: Seq<u8> }
pub struct Snap { pub mem: ES, pub imm: Option<ES>, pub l0: Seq<FileMd>, pub levels: Seq<Seq<FileMd>> }

// C10 metadata clause: every key of a file lies in [first_key, last_key]
pub open spec fn file_ok(f: FileMd) -> bool { forall|e: Entry| #[trigger] f.entries.contains(e) ==> lex_le(f.first_key, e.key) && lex_le(e.key, f.last_key) }
pub open spec fn snap_ok(s: Snap) -> bool {
    &&& forall|i: int| 0 <= i < s.l0.len() ==> file_ok(#[trigger] s.l0[i])
    &&& forall|l: int, i: int| 0 <= l < s.levels.len() && 0 <= i < s.levels[l].len() ==> file_ok(#[trigger] s.levels[l][i])
}
pub open spec fn ts_ok(a: ES) -> bool { forall|e: Entry| #[trigger] a.contains(e) ==> 0 <= e.ts <= 0xffff_ffff_ffff_ffff }
pub open spec fn tree_entries(s: Snap) -> ES {
    union_over(s.l0, |f: FileMd| f.entries).union(union_over(s.levels, |lv: Seq<FileMd>| union_over(lv, |f: FileMd| f.entries)))
}
pub open spec fn all_entries(s: Snap) -> ES {
    s.mem.union(match s.imm { Some(i) => i, None => ISet::empty() })
        .union(union_over(s.l0, |f: FileMd| f.entries))
        .union(union_over(s.levels, |lv: Seq<FileMd>| union_over(lv, |f: FileMd| f.entries)))
}

// per key, a newest version <= t exists as soon as any version <= t exists (timestamps are naturals)
proof fn lemma_newest_exists(a: ES, t: int, f: Entry) -> (g: Entry)
    requires a.contains(f), 0 <= f.ts <= t, ts_ok(a)
    ensures newest_le(a, t, g), g.key == f.key, g.ts >= f.ts
    decreases t - f.ts
{
    if forall|h: Entry| #[trigger] a.contains(h) && h.key == f.key && h.ts <= t ==> h.ts <= f.ts {
        f
    } else {
        let h = choose|h: Entry| #[trigger] a.contains(h) && h.key == f.key && h.ts <= t && !(h.ts <= f.ts);
        lemma_newest_exists(a, t, h)
    }
}

// good(c, u): `u` is what the scan makes of component `c` -- a subset of it that still contains every
// in-range entry which is the newest version <= t of its key within `c`
pub open spec fn good(c: ES, u: ES, t: int, lo: SB, hi: SB) -> bool {
    &&& forall|e: Entry| #[trigger] u.contains(e) ==> c.contains(e)
    &&& forall|e: Entry| #[trigger] newest_le(c, t, e) && in_lo(e.key, lo) && in_hi(e.key, hi) ==> u.contains(e)
}

pub proof fn lemma_good_union(c1: ES, u1: ES, c2: ES, u2: ES, t: int, lo: SB, hi: SB)
    requires good(c1, u1, t, lo, hi), good(c2, u2, t, lo, hi)
    ensures good(c1.union(c2), u1.union(u2), t, lo, hi)
{
    let c = c1.union(c2);
    assert forall|e: Entry| #[trigger] newest_le(c, t, e) && in_lo(e.key, lo) && in_hi(e.key, hi) implies u1.union(u2).contains(e) by {
        assert forall|f: Entry| #[trigger] c1.contains(f) implies c.contains(f) by { }
        assert forall|f: Entry| #[trigger] c2.contains(f) implies c.contains(f) by { }
        if c1.contains(e) { assert(newest_le(c1, t, e)); } else { assert(c2.contains(e)); assert(newest_le(c2, t, e)); }
    }
}

pub proof fn lemma_good_family<X>(xs: Seq<X>, comp: spec_fn(X) -> ES, part: spec_fn(X) -> ES, t: int, lo: SB, hi: SB)
    requires forall|i: int| 0 <= i < xs.len() ==> good(#[trigger] comp(xs[i]), part(xs[i]), t, lo, hi)
    ensures good(union_over(xs, comp), union_over(xs, part), t, lo, hi)
{
    let c = union_over(xs, comp);
    let u = union_over(xs, part);
    assert forall|e: Entry| #[trigger] u.contains(e) implies c.contains(e) by {
        let i = choose|i: int| 0 <= i < xs.len() && #[trigger] part(xs[i]).contains(e);
        assert(good(comp(xs[i]), part(xs[i]), t, lo, hi));
        assert(comp(xs[i]).contains(e));
    }
    assert forall|e: Entry| #[trigger] newest_le(c, t, e) && in_lo(e.key, lo) && in_hi(e.key, hi) implies u.contains(e) by {
        let i = choose|i: int| 0 <= i < xs.len() && #[trigger] comp(xs[i]).contains(e);
        assert(good(comp(xs[i]), part(xs[i]), t, lo, hi));
        assert forall|f: Entry| #[trigger] comp(xs[i]).contains(f) implies c.contains(f) by { }
        assert(newest_le(comp(xs[i]), t, e));
        assert(part(xs[i]).contains(e));
    }
}

// a file whose overlap test says "no overlap" contributes nothing inside the bounds (given the test is
// sound and the file's keys lie within its metadata interval)
pub proof fn lemma_skip_sound(f: FileMd, u: ES, t: int, lo: SB, hi: SB, cble: spec_fn(SB, SB) -> bool)
    requires
        file_ok(f), good(f.entries, u, t, lo, hi),
        forall|a: SB, b: SB| overlaps(a, b) ==> #[trigger] cble(a, b),
    ensures
        good(f.entries, if cble(lo, SB::Incl(f.last_key)) && cble(SB::Incl(f.first_key), hi) { u } else { ISet::empty() }, t, lo, hi),
{
    assert forall|e: Entry| #[trigger] newest_le(f.entries, t, e) && in_lo(e.key, lo) && in_hi(e.key, hi)
        implies cble(lo, SB::Incl(f.last_key)) && cble(SB::Incl(f.first_key), hi) by {
        assert(in_lo(e.key, lo) && in_hi(e.key, SB::Incl(f.last_key)));
        assert(overlaps(lo, SB::Incl(f.last_key)));
        assert(in_lo(e.key, SB::Incl(f.first_key)) && in_hi(e.key, hi));
        assert(overlaps(SB::Incl(f.first_key), hi));
    }
}

// The congruence every composition proof ends with: if U is good for A then pruning U and pruning A
// agree inside the bounds.
pub proof fn lemma_prune_restrict_congruence(u: ES, a: ES, t: int, lo: SB, hi: SB)
    requires
        ts_ok(a),
        good(a, u, t, lo, hi),
    ensures
        restrict(prune(u, t), lo, hi) =~= restrict(prune(a, t), lo, hi),
{
    let l = restrict(prune(u, t), lo, hi);
    let r = restrict(prune(a, t), lo, hi);
    assert forall|e: Entry| l.contains(e) implies r.contains(e) by {
        // newest in U, in range; were it not newest in A, the newest of A (in range, hence in U) would beat it
        if !newest_le(a, t, e) {
            let f = choose|f: Entry| #[trigger] a.contains(f) && f.key == e.key && f.ts <= t && !(f.ts <= e.ts);
            let g = lemma_newest_exists(a, t, f);
            assert(u.contains(g));
        }
    }
    assert forall|e: Entry| r.contains(e) implies l.contains(e) by {
        assert(u.contains(e));
    }
}

//@ contract-lemma lemma_kvs_range_scan
//@ contract-lemma lemma_lsmtree_range_scan
//@ min-verified 14
//@ splice compose

} // verus!
fn main() {}
