#!/bin/bash
# every Verus unit against a tree (default /repo): one line per unit; exit 1 if any is not ok
cd /verif
repo=${1:-/repo}
rc=0
for f in contracts/*.verus.rs; do
  u=$(basename $f .verus.rs)
  ( python3 tools/vtest.py $u $repo 2>&1 | grep -E "^(ok|violation|undecided|tool-error|Traceback|rustscan)" | head -1 | sed "s/^/$u: /" ) &
done | sort
wait
