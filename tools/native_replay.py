"""Search for a concrete failing input after a failed Verus obligation: a native differential test over small
inputs, run against a scratch copy of the real code.  Only ever used to attach a failing input to an obligation
that already failed (DESIGN 2.3); a pass proves nothing and is reported as 'no failing input found'."""
import os
import re
import shutil
import subprocess

import kanix

HERE = os.path.dirname(os.path.dirname(os.path.abspath(__file__)))


def run(repo: str, package: str, test: str, marker: str, timeout: int = 900):
    """copy contracts/replays/<test>.rs to <package>/tests/ in a scratch copy, cargo test it.
    -> dict(ran, confirmed, output, rc)"""
    res = dict(ran=False, confirmed=False, test=f"{package}/tests/{test}.rs")
    with kanix.Scratch(repo, f"replay-{test}") as sc:
        td = os.path.join(sc.ws, package, "tests")
        os.makedirs(td, exist_ok=True)
        shutil.copy(os.path.join(HERE, "contracts", "replays", f"{test}.rs"), os.path.join(td, f"{test}.rs"))
        env = dict(os.environ, CARGO_NET_OFFLINE="true", CARGO_TARGET_DIR=os.path.join(sc.dir, "target"))
        try:
            p = subprocess.run(["cargo", "test", "--offline", "-p", package, "--test", test, "--", "--nocapture"], cwd=sc.ws, env=env,
                               stdout=subprocess.PIPE, stderr=subprocess.STDOUT, text=True, timeout=timeout)
        except subprocess.TimeoutExpired as e:
            res["output"] = f"replay test did not finish within {timeout}s (a hang is not counted as a failing input)"
            subprocess.run(["pkill", "-f", os.path.join(sc.dir, "target")])
            return res
        out = p.stdout
        res["rc"] = p.returncode
        res["ran"] = "running 1 test" in out
        res["output"] = "\n".join(l for l in out.split("\n") if re.search(marker + r"|panicked|test result|error(\[|:)", l))[-3000:]
        res["confirmed"] = res["ran"] and p.returncode != 0 and marker in out and "test result: FAILED" in out
    return res


if __name__ == "__main__":
    import json
    import sys
    print(json.dumps(run(sys.argv[1], sys.argv[2], sys.argv[3], sys.argv[4]), indent=1))
