"""C03: mechanical extraction of the cursor-composition term built by the range_scan functions.

The four functions that build a range scan (KeyValueStore::range_scan, MemTable::range_scan,
Version::range_scan, LsmTree::range_scan) are straight-line compositions of cursor constructors with
`for`/`if` around `push`.  This module reads their bodies from /repo's working tree on every run and
turns them into a term over the constructors

    Prune(c, t)  Bounds(c, lo, hi)  Merge(list)  Concat(list)  Lazy(file)  Skip(memtable)

where lists are built from  Elem(term) | For(var, source, [items]) | If(cond, [items]) .
Nothing is assumed about the shape: a statement the extractor does not understand raises Unsupported
(the check then exits 2 = undecided, never an alarm), a vanished function raises LostAnchor.

The same term is then (a) rendered as a Verus spec expression over entry sets (compose_verus) and
(b) evaluated on concrete small tables for the witness search (compose_eval).
"""
import re

from rustscan import RustFile, LostAnchor, mask_source, match_brace


class Unsupported(Exception):
    pass


# ------------------------------------------------------------------ statement splitting

def _split_statements(src: str, mask: str, lo: int, hi: int):
    """yield (kind, a, b, extra) for top-level statements of the block body src[lo:hi]"""
    i = lo
    out = []
    while i < hi:
        while i < hi and mask[i] in " \t\r\n":
            i += 1
        if i >= hi:
            break
        m = re.match(r"(pub(\([a-z]+\))?\s+)?fn\b", mask[i:hi])
        if m:
            # nested fn item: skip to the end of its body
            k = mask.index("(", i)
            k = match_brace(mask, k)
            while mask[k] != "{":
                k += 1
            c = match_brace(mask, k)
            out.append(("fn", i, c + 1, None))
            i = c + 1
            continue
        m = re.match(r"for\b", mask[i:hi])
        if m:
            k = i
            d = 0
            while k < hi:
                ch = mask[k]
                if ch in "([":
                    d += 1
                elif ch in ")]":
                    d -= 1
                elif ch == "{" and d == 0:
                    break
                k += 1
            c = match_brace(mask, k)
            out.append(("for", i, c + 1, (k, c)))
            i = c + 1
            continue
        m = re.match(r"if\b", mask[i:hi])
        if m:
            k = i
            d = 0
            while k < hi:
                ch = mask[k]
                if ch in "([":
                    d += 1
                elif ch in ")]":
                    d -= 1
                elif ch == "{" and d == 0:
                    break
                k += 1
            c = match_brace(mask, k)
            j = c + 1
            while j < hi and mask[j] in " \t\r\n":
                j += 1
            if mask[j:j + 4] == "else":
                raise Unsupported("if/else around cursor construction: " + src[i:i + 60])
            out.append(("if", i, c + 1, (k, c)))
            i = c + 1
            if i < hi and mask[i] == ";":
                i += 1
            continue
        # plain statement up to ';' at depth 0, or the tail expression
        k = i
        d = 0
        while k < hi:
            ch = mask[k]
            if ch in "([{":
                d += 1
            elif ch in ")]}":
                d -= 1
            elif ch == ";" and d == 0:
                break
            k += 1
        if k >= hi:
            out.append(("tail", i, hi, None))
            i = hi
        else:
            out.append(("stmt", i, k, None))
            i = k + 1
    return out


def _top_split(s: str, sep: str = ","):
    """split s at top-level commas (parens, brackets, braces and generic angle brackets nest)"""
    m = mask_source(s)
    parts, d, ang, last = [], 0, 0, 0
    for k, ch in enumerate(m):
        if ch in "([{":
            d += 1
        elif ch in ")]}":
            d -= 1
        elif ch == "<" and k > 0 and (m[k - 1].isalnum() or m[k - 1] in "_:") and k + 1 < len(m) and m[k + 1] not in " =":
            ang += 1
        elif ch == ">" and ang > 0 and m[k - 1] not in "-=":
            ang -= 1
        elif ch == sep and d == 0 and ang == 0:
            parts.append(s[last:k].strip())
            last = k + 1
    tail = s[last:].strip()
    if tail:
        parts.append(tail)
    return parts


def _call(expr: str, head_re: str):
    """if expr is HEAD(args)[?] return list of args else None"""
    e = expr.strip()
    m = re.match(head_re + r"\s*\(", e)
    if not m:
        return None
    mask = mask_source(e)
    o = m.end() - 1
    c = match_brace(mask, o)
    rest = e[c + 1:].strip()
    if rest not in ("", "?"):
        return None
    return _top_split(e[o + 1:c])


# ------------------------------------------------------------------ term construction

class Ctx:
    def __init__(self, repo):
        self.repo = repo
        self.files = {}
        self.fn_sources = {}   # name -> (file, line) for the evidence

    def rf(self, rel):
        if rel not in self.files:
            self.files[rel] = RustFile(f"{self.repo}/{rel}")
        return self.files[rel]


FUNCS = {
    "kvs": ("lsmtk/src/kvs/mod.rs", "impl KeyValueStore :: fn range_scan"),
    "memtable": ("lsmtk/src/kvs/memtable.rs", "impl MemTable :: fn range_scan"),
    "version": ("lsmtk/src/tree/mod.rs", "impl Version :: fn range_scan"),
    "versionref": ("lsmtk/src/tree/mod.rs", "impl VersionRef<'_> :: fn range_scan"),
    "lsmtree": ("lsmtk/src/tree/mod.rs", "impl LsmTree :: fn range_scan"),
}


def _params(rf, it):
    p0, p1 = it["params"]
    ps = []
    for p in _top_split(rf.src[p0 + 1:p1]):
        if p.startswith("&self") or p == "self" or p.startswith("&mut self"):
            continue
        ps.append(p.split(":")[0].strip().replace("mut ", ""))
    return ps


def extract(ctx: Ctx, which: str, args=None, depth=0):
    """returns the term of function `which` with formal parameters substituted by `args` (texts/terms)"""
    if depth > 6:
        raise Unsupported("recursion in range_scan composition")
    rel, path = FUNCS[which]
    rf = ctx.rf(rel)
    it = rf.find_item(path)
    ctx.fn_sources[which] = f"{rel}:{rf.line_of(it['kw'])} {path}"
    formals = _params(rf, it)
    env = {}
    if args is not None:
        if len(args) != len(formals):
            raise Unsupported(f"{which}: {len(formals)} formals vs {len(args)} actuals")
        for f, a in zip(formals, args):
            env[f] = ("arg", a)
    else:
        for f in formals:
            env[f] = ("arg", ("sym", f))
    res = _block(ctx, rf, it["body_open"] + 1, it["body_close"], env, which, depth)
    if res is None:
        raise Unsupported(f"{which}: no result expression found")
    return res


def _sym(env, text):
    """resolve a scalar/bound expression to a symbolic value"""
    t = text.strip()
    t = re.sub(r"^&\s*", "", t)
    if t in env:
        k, v = env[t]
        if k == "arg":
            return v
        if k == "val":
            return v
        raise Unsupported(f"{t} is not a scalar")
    if t == "u64::MAX":
        return ("max",)
    m = re.match(r"Bound::(Included|Excluded)\(\s*&?\s*([a-z_]+)\.(first_key|last_key)\s*\)$", t)
    if m:
        return ("bound", m.group(1), (m.group(3), _sym(env, m.group(2))))
    m = re.match(r"bound_to_bound\(\s*(.*)\)$", t)
    if m:
        return _sym(env, m.group(1))
    m = re.match(r"state\.(?:visible_)?seq_no$", t)
    if m:
        return ("sym", "seq_no")
    m = re.match(r"([a-z_]+)\.(setsum)$", t)
    if m:
        return _sym(env, m.group(1))
    m = re.match(r"Setsum::from_digest\((.*)\)$", t)
    if m:
        return _sym(env, m.group(1))
    raise Unsupported(f"scalar expression not understood: {t[:80]}")


def _term(ctx, env, expr, which, depth):
    e = expr.strip()
    if e.endswith("?"):
        inner = e[:-1].strip()
    else:
        inner = e
    inner = re.sub(r"^(sst::)?", "", inner)
    a = _call(inner, r"Box::new")
    if a is not None:
        return _term(ctx, env, a[0], which, depth)
    a = _call(inner, r"Ok")
    if a is not None:
        return _term(ctx, env, a[0], which, depth)
    a = _call(inner, r"PruningCursor::new")
    if a is not None:
        return ("Prune", _term(ctx, env, a[0], which, depth), _sym(env, a[1]))
    a = _call(inner, r"PruningCursor::with_tombstones")
    if a is not None:
        return ("PruneKeep", _term(ctx, env, a[0], which, depth), _sym(env, a[1]))
    a = _call(inner, r"BoundsCursor::new")
    if a is not None:
        return ("Bounds", _term(ctx, env, a[0], which, depth), _sym(env, a[1]), _sym(env, a[2]))
    a = _call(inner, r"MergingCursor::new")
    if a is not None:
        return ("Merge", _list(env, a[0]))
    a = _call(inner, r"ConcatenatingCursor::new")
    if a is not None:
        return ("Concat", _list(env, a[0]))
    a = _call(inner, r"LazyCursor::new")
    if a is not None:
        return ("Lazy", _file(env, a[0]))
    m = re.match(r"SkipListIteratorWrapper\s*\{\s*iter\s*\}$", inner)
    if m:
        k, v = env.get("iter", (None, None))
        if k != "skipiter":
            raise Unsupported("SkipListIteratorWrapper over an unknown iterator")
        return ("Skip", v)
    m = re.match(r"MemTableCursor\s*\{\s*cursor\s*\}$", inner)
    if m:
        return _term(ctx, env, "cursor", which, depth)
    m = re.match(r"([a-z_.]+)\.range_scan\((.*)\)$", inner, re.S)
    if m:
        recv, argtxt = m.group(1), m.group(2)
        args = [a for a in _top_split(argtxt)]
        k, v = env.get(recv, (None, None))
        if recv == "self.version":
            k, v = "selfversion", ("self",)
        if k == "memtable":
            return extract(ctx, "memtable", [_sym_or_self(env, a, v) for a in args], depth + 1)[0](v)
        if k == "versionref":
            return extract(ctx, "versionref", [_sym(env, a) for a in args], depth + 1)[0](v)
        if k == "selfversion":
            # VersionRef::range_scan delegating to Version::range_scan with fm, sc first
            rest = [a for a in args if not re.match(r"&\s*self\.tree\.(file_manager|sst_cache)$", a.strip())]
            if len(rest) != len(args) - 2:
                raise Unsupported("VersionRef::range_scan no longer passes file_manager/sst_cache first")
            return extract(ctx, "version", [("sym", "fm"), ("sym", "sc")] + [_sym(env, a) for a in rest], depth + 1)[0](v)
        raise Unsupported(f"range_scan on unknown receiver {recv}")
    if re.match(r"[a-z_]+$", inner):
        if inner in env:
            k, v = env[inner]
            if k == "cursor":
                return v
        raise Unsupported(f"variable {inner} is not a cursor")
    raise Unsupported(f"{which}: cursor expression not understood: {inner[:100]}")


def _sym_or_self(env, a, v):
    return _sym(env, a)


def _list(env, name):
    n = name.strip()
    if n in env and env[n][0] == "list":
        v, out = env[n], []
        chain = []
        while v is not None:
            chain.append(v[1])
            v = v[2]
        for items in reversed(chain):
            out += items
        return out
    raise Unsupported(f"{n} is not a cursor list")


def _file(env, name):
    n = name.strip()
    if n in env and env[n][0] == "lazy":
        return env[n][1]
    raise Unsupported(f"LazyCursor over unknown opener {n}")


def _block(ctx, rf, lo, hi, env, which, depth, nested=False):
    """evaluate statements; returns (closure over receiver -> term,) for the function result, or None"""
    src, mask = rf.src, rf.mask
    result = None

    def enter(env):
        inner = dict(env)
        fresh = {}
        for k, v in env.items():
            if isinstance(v, tuple) and v and v[0] == "list":
                fresh[k] = []
                inner[k] = ("list", fresh[k], v)
        return inner, fresh

    for kind, a, b, extra in _split_statements(src, mask, lo, hi):
        text = src[a:b].strip()
        if kind == "fn":
            continue
        if kind == "for":
            k, c = extra
            head = src[a:k]
            m = re.match(r"for\s+([a-z_0-9]+)\s+in\s+(.*)$", head.strip(), re.S)
            if not m:
                raise Unsupported("for header: " + head[:60])
            var, it = m.group(1), re.sub(r"\s+", "", m.group(2))
            source = _source(env, it)
            inner_env, fresh = enter(env)
            inner_env[var] = ("val", ("elem", var, source))
            _block(ctx, rf, k + 1, c, inner_env, which, depth, nested=True)
            for lname, items in fresh.items():
                if any(x[0] not in ("Break", "SkipRest") for x in items):
                    env[lname][1].append(("For", var, source, items))
            continue
        if kind == "if":
            k, c = extra
            cond = re.sub(r"\s+", " ", src[a + 2:k].strip())
            body_txt = re.sub(r"\s+", "", src[k + 1:c])
            if nested and body_txt in ("break;", "continue;"):
                # an early exit from the enclosing `for`: everything pushed later in this iteration (and, for `break`,
                # in every later iteration) is skipped when the condition holds
                condt = _cond(env, cond, dict(env))
                marker = ("Break" if body_txt == "break;" else "SkipRest", condt)
                for lname, v in env.items():
                    if isinstance(v, tuple) and v and v[0] == "list":
                        v[1].append(marker)
                continue
            inner_env, fresh = enter(env)
            condt = _cond(env, cond, inner_env)
            _block(ctx, rf, k + 1, c, inner_env, which, depth, nested=True)
            for lname, items in fresh.items():
                if items:
                    env[lname][1].append(("If", condt, items))
            continue
        t = re.sub(r"\s+", " ", text)
        m = re.match(r"let (mut )?([a-z_0-9]+)(\s*:\s*[^=]+)? = (.*)$", t)
        if m:
            _bind(ctx, env, m.group(2), m.group(4).strip(), which, depth)
            continue
        m = re.match(r"let \(([a-z_, ]+)\) = \{", t)
        if m and which == "kvs":
            # the snapshot tuple of KeyValueStore::range_scan: (mem, imm, version, timestamp)
            names = [x.strip() for x in m.group(1).split(",")]
            body = t[t.index("{") + 1:t.rindex("}")]
            tail = body.rsplit(";", 1)[-1].strip()
            mm = re.match(r"\((.*)\)$", tail)
            vals = _top_split(mm.group(1)) if mm else []
            if len(vals) != len(names):
                raise Unsupported("snapshot tuple arity")
            defs = dict(re.findall(r"let ([a-z_]+) = ([^;]+);", body))
            for nme, v in zip(names, vals):
                d = defs.get(v, v).strip()
                if re.match(r"Arc::clone\(&state\.mem\)$", d):
                    env[nme] = ("memtable", ("mem",))
                elif re.match(r"state\.imm\.clone\(\)$", d):
                    env[nme] = ("optmemtable", ("imm",))
                elif re.match(r"self\.tree\.take_snapshot\(\)$", d):
                    env[nme] = ("versionref", ("version",))
                elif re.match(r"state\.(?:visible_)?seq_no$", d):
                    # the snapshot timestamp (that it covers fully applied batches only is unit lsmtk_visible, C06)
                    env[nme] = ("val", ("sym", "seq_no"))
                else:
                    raise Unsupported(f"snapshot component {nme} = {d}")
            continue
        m = re.match(r"([a-z_0-9]+)\.push\((.*)\)$", t)
        if m:
            lname, e = m.group(1), m.group(2)
            if lname not in env or env[lname][0] != "list":
                raise Unsupported(f"push into unknown list {lname}")
            env[lname][1].append(("Elem", _term(ctx, env, e, which, depth)))
            continue
        m = re.match(r"([a-z_0-9]+)\.(seek_to_first|seek_to_last)\(\)\?$", t)
        if m:
            # positioning of a freshly built child before it is handed to MergingCursor::new, which
            # re-positions every child itself: no effect on the sequence the cursor denotes
            continue
        if kind == "tail" or t.startswith("return "):
            e = t[7:] if t.startswith("return ") else t
            result = _term(ctx, env, e, which, depth)
            continue
        raise Unsupported(f"{which}: statement not understood: {t[:100]}")
    if nested or result is None:
        return None
    return (lambda recv, _r=result: _subst_self(_r, recv),)


def _subst_self(term, recv):
    if isinstance(term, tuple):
        if term == ("self",):
            return recv
        return tuple(_subst_self(x, recv) for x in term)
    if isinstance(term, list):
        return [_subst_self(x, recv) for x in term]
    return term


def _source(env, it):
    """iteration source of a for loop"""
    if it == "self.levels[0].ssts.iter()":
        return ("l0", ("self",))
    if it == "self.levels[1..].iter()":
        return ("levels1", ("self",))
    m = re.match(r"([a-z_]+)\.ssts\.iter\(\)$", it)
    if m:
        return ("ssts", _sym(env, m.group(1)))
    raise Unsupported(f"for-loop source not understood: {it}")


def _cond(env, cond, inner_env):
    m = re.match(r"let Some\(([a-z_]+)\) = ([a-z_]+)$", cond)
    if m:
        k, v = env.get(m.group(2), (None, None))
        if k == "optmemtable":
            inner_env[m.group(1)] = ("memtable", v)
            return ("is_some", v)
        raise Unsupported("if let over " + m.group(2))
    m = re.match(r"!([a-z_]+)\.is_empty\(\)$", cond)
    if m:
        return ("nonempty", m.group(1))
    parts = [p.strip() for p in cond.split("&&")]
    out = []
    for p in parts:
        neg = p.startswith("!")
        a = _call(p[1:].strip() if neg else p, r"compare_bounds_le")
        if a is None:
            raise Unsupported("condition not understood: " + cond[:80])
        out.append(("ncble" if neg else "cble", _sym(env, a[0]), _sym(env, a[1])))
    return ("and", out)


def _bind(ctx, env, var, rhs, which, depth):
    r = rhs
    if re.match(r"(Vec::with_capacity\(\d+\)|vec!\[\]|Vec::new\(\))$", r):
        env[var] = ("list", [], None)
        return
    if re.match(r"self\.skiplist\.iter\(\)$", r):
        env[var] = ("skipiter", ("self",))
        return
    if re.match(r"self\.take_snapshot\(\)$", r):
        env[var] = ("versionref", ("version",))
        return
    if re.match(r"Arc::clone\((fm|sc)\)$", r) or re.match(r"self\.options\.path\.clone\(\)$", r):
        env[var] = ("val", ("sym", var))
        return
    m = re.match(r"move \|\| lazy_cursor\(&fm, &sc, &root, ([a-z_]+)\)$", r)
    if m:
        env[var] = ("lazy", _sym(env, m.group(1)))
        return
    m = re.match(r"Setsum::from_digest\(([a-z_]+)\.setsum\)$", r)
    if m:
        env[var] = ("val", _sym(env, m.group(1)))
        return
    if r.startswith("Bound::") or r.startswith("bound_to_bound("):
        env[var] = ("val", _sym(env, r))
        return
    # a cursor
    try:
        env[var] = ("cursor", _term(ctx, env, r, which, depth))
    except Unsupported:
        raise


# ------------------------------------------------------------------ top level

def build_terms(repo):
    """-> dict(kvs=term, lsmtree=term, sources=...)"""
    ctx = Ctx(repo)
    # VersionRef::range_scan is `self.version.range_scan(..)`: teach the environment
    terms = {}
    kv = extract(ctx, "kvs")[0](("store",))
    terms["kvs"] = kv
    try:
        terms["lsmtree"] = extract(ctx, "lsmtree")[0](("tree",))
    except LostAnchor:
        pass
    return terms, ctx.fn_sources


def show(t, ind=0):
    pad = "  " * ind
    if isinstance(t, tuple) and t and t[0] in ("Prune", "Bounds", "Lazy", "Skip"):
        if t[0] == "Prune":
            return f"{pad}Prune(t={t[2]})\n" + show(t[1], ind + 1)
        if t[0] == "Bounds":
            return f"{pad}Bounds({t[2]}, {t[3]})\n" + show(t[1], ind + 1)
        return f"{pad}{t[0]}({t[1]})\n"
    if isinstance(t, tuple) and t and t[0] in ("Merge", "Concat"):
        s = f"{pad}{t[0]}[\n"
        for it in t[1]:
            s += show_item(it, ind + 1)
        return s + f"{pad}]\n"
    return f"{pad}{t}\n"


def show_item(it, ind):
    pad = "  " * ind
    if it[0] == "Elem":
        return show(it[1], ind)
    if it[0] == "For":
        s = f"{pad}for {it[1]} in {it[2]}:\n"
        for x in it[3]:
            s += show_item(x, ind + 1)
        return s
    if it[0] == "If":
        s = f"{pad}if {it[1]}:\n"
        for x in it[2]:
            s += show_item(x, ind + 1)
        return s
    return f"{pad}?{it}\n"


if __name__ == "__main__":
    import sys
    terms, srcs = build_terms(sys.argv[1] if len(sys.argv) > 1 else "/repo")
    for k, v in terms.items():
        print("==", k)
        print(show(v))
    print(srcs)
