#!/usr/bin/env python3
import sys, json, os
sys.path.insert(0, os.path.dirname(__file__))
import verusx
unit = sys.argv[1]
repo = sys.argv[2] if len(sys.argv) > 2 else "/repo"
out = f"/verif/build/{unit}.rs"
lm, meta, rep = verusx.build_unit(repo, f"/verif/contracts/{unit}.verus.rs", out)
r = verusx.run_verus(out, lm, meta, unit)
print(r["status"], r["reason"], "verified", r["verified"], "errors", r["errors"], "wall", round(r["wall_s"],1))
for v in r["violations"]: print("VIOL", v["obligation"], v["line"], v["msg"]); print(v["rendered"])
for v in r["undecided"]: print("UNDEC", v["obligation"], v["line"], v["msg"]); print(v["rendered"])
for v in r.get("tool",[]): print("TOOL", v["msg"]); print(v["rendered"])
if "-v" in sys.argv:
    for f in r["functions"]: print(f)
