"""C03: find a witness for a rejected composition obligation and replay it on the real store."""
import json
import os
import re
import shutil
import subprocess

import compose
import compose_eval
import kanix


def run(repo: str, out_dir: str, which_failed):
    """-> dict(found, confirmed, witness, evaluations, replay_output)"""
    terms, _ = compose.build_terms(repo)
    os.makedirs(out_dir, exist_ok=True)
    res = dict(found=False, confirmed=False, evaluations=0)
    for which in ("lsmtree", "kvs"):
        if which not in terms:
            continue
        # replayable witnesses first: tree components only (they can be ingested as SST files)
        w, n = compose_eval.search(terms[which], which, comps=["l0_0", "l0_1"])
        res["evaluations"] += n
        if w is None:
            w, n = compose_eval.search(terms[which], which)
            res["evaluations"] += n
        if w is None:
            continue
        res["found"] = True
        res["witness"] = json.loads(json.dumps(w, default=lambda b: b.decode("latin1") if isinstance(b, bytes) else b))
        replayable = all(c.startswith("l0_") for c in w["entries"])
        if not replayable:
            res["note"] = "witness involves memtable / deeper-level components; the LsmTree-level replay cannot place entries there"
            return res
        wf = os.path.join(out_dir, f"c03_witness_{which}.txt")
        compose_eval.witness_file(w, wf)
        res["witness_file"] = wf
        with kanix.Scratch(repo, "c03-replay") as sc:
            os.makedirs(os.path.join(sc.ws, "lsmtk", "tests"), exist_ok=True)
            shutil.copy(os.path.join(os.path.dirname(os.path.dirname(os.path.abspath(__file__))), "contracts", "c03_replay.rs"),
                        os.path.join(sc.ws, "lsmtk", "tests", "c03_replay.rs"))
            env = dict(os.environ, C03_WITNESS=wf, CARGO_NET_OFFLINE="true", CARGO_TARGET_DIR=os.path.join(sc.dir, "target"))
            p = subprocess.run(["cargo", "test", "--offline", "-p", "lsmtk", "--test", "c03_replay", "--", "--nocapture"], cwd=sc.ws, env=env,
                               stdout=subprocess.PIPE, stderr=subprocess.STDOUT, text=True, timeout=3600)
            out = p.stdout
            res["replay_rc"] = p.returncode
            res["replay_output"] = "\n".join(l for l in out.split("\n") if re.search(r"C03-REPLAY|panicked|test result|assertion|left:|right:", l))[-3000:]
            ran = "running 1 test" in out
            res["confirmed"] = ran and p.returncode != 0 and "C03-REPLAY" in out and "test result: FAILED" in out
            res["replay_ran"] = ran
        return res
    return res


def replay_file(repo: str, wf: str):
    """replay a stored witness file (format of contracts/c03_replay.rs) on a scratch copy of the real store"""
    res = dict(confirmed=False, replay_ran=False, witness_file=wf)
    with kanix.Scratch(repo, "c03-replay") as sc:
        os.makedirs(os.path.join(sc.ws, "lsmtk", "tests"), exist_ok=True)
        shutil.copy(os.path.join(os.path.dirname(os.path.dirname(os.path.abspath(__file__))), "contracts", "c03_replay.rs"),
                    os.path.join(sc.ws, "lsmtk", "tests", "c03_replay.rs"))
        env = dict(os.environ, C03_WITNESS=wf, CARGO_NET_OFFLINE="true", CARGO_TARGET_DIR=os.path.join(sc.dir, "target"))
        p = subprocess.run(["cargo", "test", "--offline", "-p", "lsmtk", "--test", "c03_replay", "--", "--nocapture"], cwd=sc.ws, env=env,
                           stdout=subprocess.PIPE, stderr=subprocess.STDOUT, text=True, timeout=3600)
        out = p.stdout
        res["replay_rc"] = p.returncode
        res["replay_output"] = "\n".join(l for l in out.split("\n") if re.search(r"C03-REPLAY|panicked|test result|assertion|left:|right:", l))[-3000:]
        ran = "running 1 test" in out
        res["confirmed"] = ran and p.returncode != 0 and "C03-REPLAY" in out and "test result: FAILED" in out
        res["replay_ran"] = ran
    return res
