#!/usr/bin/env python3
"""dev helper: run one kani unit against a repo tree"""
import sys, os, json
sys.path.insert(0, os.path.dirname(__file__))
import kanix
unit = sys.argv[1]
repo = "/repo"
only = None
tier = "quick"
tmo = None
for a in sys.argv[2:]:
    if a.startswith("--repo="): repo = a[7:]
    elif a.startswith("--only="): only = a[7:].split(",")
    elif a.startswith("--tier="): tier = a[7:]
    elif a.startswith("--timeout="): tmo = a[10:]
u = kanix.parse_template(f"/verif/contracts/{unit}.kani.rs")
hs = [h for h in u["harnesses"] if (only is None and (h["tier"] == "quick" or (tier in ("thorough", "experimental") and h["tier"] == "thorough") or tier == "experimental")) or (only and h["name"] in only)]
if tmo:
    for h in hs: h["timeout"] = tmo
with kanix.Scratch(repo, "ktest-" + unit) as sc:
    print(kanix.inject(sc.ws, u))
    r = kanix.run_group(sc.ws, u["package"], u["flags"], hs, 8, "/verif/build/logs", "ktest-" + unit)
    print("wall", round(r["wall_s"], 1), "rc", r["rc"])
    for h in hs:
        hr = r["results"][h["name"]]
        print(h["name"], hr["status"], hr.get("duration_ms"), kanix.classify(hr, h), "covers", hr["covers"], hr["covers_unsat"])
    if "--playback" in sys.argv:
        for h in hs:
            if kanix.classify(r["results"][h["name"]], h)[0] == "violation":
                pb = kanix.playback(sc.ws, u["package"], u["flags"], h["name"], "/verif/build/logs", u["modfile"])
                print(json.dumps({k: v for k, v in pb.items() if k != "test_source"}, indent=1)[:3000])
                break
    if "--keep" in sys.argv:
        os.system(f"cp -r {sc.ws}/{os.path.dirname(u['modfile'])} /verif/build/kept-{unit}")
