"""Verus route: build one verifiable file per unit from a contract template, by extracting the named
items from /repo's working tree on every run (DESIGN.md 2.2), run verus, classify diagnostics.

Template directives (lines starting with //@):
  //@ extract <file> | <item path>         begins an extraction block, ended by //@ end
  //@ ret <name>                           name the return value
  //@ pre << ... //@ >>                    requires clauses (comma separated, raw Verus)
  //@ post << ... //@ >>                   ensures clauses
  //@ dec << ... //@ >>                    decreases (recursive fn)
  //@ loop <n> << ... //@ >>               text inserted between header and body of loop ordinal n
  //@ before `anchor` << ... //@ >>        proof text inserted before the line containing anchor
  //@ after `anchor` << ... //@ >>         proof text inserted after the line containing anchor
  //@ bodystart << ... //@ >>              proof text at the start of the fn body
  //@ afterloop <n> << ... //@ >>          proof text right after the closing brace of loop ordinal n
  //@ rewrite <RULE> `from` => `to`        literal rewrite (rules X4/X5/X7/X9), reported; must match
  //@ rewrite-re <RULE> `regex` => `to`    regex rewrite, reported; must match
  //@ prefix <text>                        text put in front of the item (e.g. an attribute)
  //@ external-body                        keep signature + contract, drop body (an ASSUMPTION, listed)
  //@ optional                             do not fail with LOST-ANCHOR if the item is absent
  //@ contract-lemma <fn name>             failures inside this template fn are contract-level
  //@ min-verified <n>                     vacuity guard: at least n functions must verify
Everything else in the template is copied as is (origin "spec").
"""
import hashlib
import json
import os
import re
import subprocess
import time

from rustscan import RustFile, LostAnchor, find_loops, mask_source, match_brace, find_body_open, find_fn_body_open

X1_ATTR = re.compile(r"^\s*#\[(inline|allow|derive|doc|must_use|cfg_attr\(feature|prototk|deprecated)[^\n]*\]\s*$")
X3_COUNTER = re.compile(r"^\s*[A-Z][A-Z0-9_]*\.(click\(\)|count\([^;]*\));\s*$")


class TemplateError(Exception):
    pass


X1_NAMES = ("inline", "allow", "derive", "doc", "must_use", "cfg_attr", "prototk", "deprecated", "arrrg")


def _strip_x1_x2(text: str, log: list) -> str:
    # doc comments
    text = "\n".join(l for l in text.split("\n") if not l.strip().startswith(("///", "//!")))
    # attributes (possibly multi-line), found on the masked text
    mask = mask_source(text)
    out, pos = [], 0
    for m in re.finditer(r"#\s*\[", mask):
        if m.start() < pos:
            continue
        ob = mask.index("[", m.start())
        cb = match_brace(mask, ob)
        name = re.match(r"\s*([A-Za-z_:]+)", mask[ob + 1:cb])
        nm = name.group(1) if name else ""
        if nm in X1_NAMES:
            out.append(text[pos:m.start()])
            pos = cb + 1
            log.append(("X1", "#[" + re.sub(r"\s+", " ", text[ob + 1:cb])[:80] + "]"))
    out.append(text[pos:])
    t = "".join(out)
    t = "\n".join(l for l in t.split("\n") if l.strip() != "" or True)
    t2 = re.sub(r"\bpub(\([a-z: ]+\))?\s+", "", t)
    if t2 != t:
        log.append(("X2", "pub stripped"))
    return t2


def _strip_x3(text: str, log: list) -> str:
    out = []
    for ln in text.split("\n"):
        if X3_COUNTER.match(ln):
            log.append(("X3", ln.strip()))
            continue
        out.append(ln)
    return "\n".join(out)


def _loop_key(t: str):
    """`//@ loop 2 <<` -> 2 (ordinal);  `//@ loop \`for ridx in\` <<` -> 'for ridx in' (the loop whose header contains it)"""
    m = re.match(r"//@ \w+(\?)? `(.*)` <<", t)
    # a `?` after the directive name (`//@ loop? \`for x in\` <<`) makes it optional: no such loop, no insertion
    return (("?" if m.group(1) else "") + m.group(2)) if m else int(t.split()[2])


def parse_template(path: str):
    """-> list of segments: ('raw', text) | ('extract', dict)"""
    lines = []
    for ln in open(path, encoding="utf-8").read().split("\n"):
        if ln.strip().startswith("//@ include "):
            inc = os.path.join(os.path.dirname(path), ln.strip().split()[2])
            lines += open(inc, encoding="utf-8").read().split("\n")
        else:
            lines.append(ln)
    segs = []
    meta = {"contract_lemmas": set(), "min_verified": 1}
    i = 0
    raw = []

    def flush():
        if raw:
            segs.append(("raw", "\n".join(raw)))
            raw.clear()

    def multiline(i):
        body = []
        i += 1
        while i < len(lines) and lines[i].strip() != "//@ >>":
            body.append(lines[i])
            i += 1
        if i >= len(lines):
            raise TemplateError(f"{path}: unterminated << block")
        return "\n".join(body), i

    while i < len(lines):
        ln = lines[i]
        s = ln.strip()
        if s.startswith("//@ extract "):
            flush()
            spec = s[len("//@ extract "):]
            f, p = [x.strip() for x in spec.split("|", 1)]
            blk = dict(file=f, path=p, ret=None, pre=None, post=None, dec=None, loops={}, inserts=[], rewrites=[],
                       prefix=[], external_body=False, optional=False, line=i + 1)
            i += 1
            while i < len(lines) and lines[i].strip() != "//@ end":
                t = lines[i].strip()
                if t.startswith("//@ ret "):
                    blk["ret"] = t[8:].strip()
                elif t.startswith("//@ pre <<"):
                    blk["pre"], i = multiline(i)
                elif t.startswith("//@ post <<"):
                    blk["post"], i = multiline(i)
                elif t.startswith("//@ dec <<"):
                    blk["dec"], i = multiline(i)
                elif t.startswith("//@ loop ") or t.startswith("//@ loop? "):
                    n = _loop_key(t)
                    blk["loops"][n], i = multiline(i)
                elif re.match(r"//@ (before|after|afterall|beforeall)(#\d+)?\?? `", t):
                    # a trailing `?` makes the hint optional: if the anchor statement is gone the hint is dropped
                    # (the function then has to verify without it) instead of losing the whole unit
                    m0 = re.match(r"//@ (before|after|afterall|beforeall)(#\d+)?(\?)? `(.*)` <<", t)
                    m0 = type("M", (), {"group": lambda self, k, _m=m0: (_m.group(1) if k == 1 else _m.group(2) if k == 2 else _m.group(4)), "opt": m0.group(3) is not None})()
                    class _M:  # keep the (where, anchor) shape; an occurrence ordinal rides on `where`
                        def __init__(self, a, b): self.a, self.b = a, b
                        def group(self, k): return self.a if k == 1 else self.b
                    m = _M(m0.group(1) + (m0.group(2) or "") + ("?" if m0.opt else ""), m0.group(3))
                    body, i = multiline(i)
                    blk["inserts"].append((m.group(1), m.group(2), body))
                elif t.startswith("//@ afterloop ") or t.startswith("//@ afterloop? "):
                    n = _loop_key(t)
                    body, i = multiline(i)
                    blk["inserts"].append(("afterloop", n, body))
                elif t.startswith("//@ startloop ") or t.startswith("//@ startloop? "):
                    # proof text placed at the very start of the body of loop ordinal n (after its opening brace)
                    n = _loop_key(t)
                    body, i = multiline(i)
                    blk["inserts"].append(("startloop", n, body))
                elif t.startswith("//@ endloop ") or t.startswith("//@ endloop? "):
                    # proof text placed at the very end of the body of loop ordinal n (before its closing brace)
                    n = _loop_key(t)
                    body, i = multiline(i)
                    blk["inserts"].append(("endloop", n, body))
                elif t.startswith("//@ bodystart <<"):
                    body, i = multiline(i)
                    blk["inserts"].append(("bodystart", None, body))
                elif t.startswith("//@ rewrite-re? "):
                    # optional: the pattern may match nowhere (used to cover every comparison operator at a site)
                    m = re.match(r"//@ rewrite-re\? (\S+) `(.*)` => `(.*)`", t)
                    blk["rewrites"].append((m.group(1), m.group(2), m.group(3), "opt"))
                elif t.startswith("//@ rewrite-re "):
                    m = re.match(r"//@ rewrite-re (\S+) `(.*)` => `(.*)`", t)
                    blk["rewrites"].append((m.group(1), m.group(2), m.group(3), True))
                elif t.startswith("//@ rewrite "):
                    m = re.match(r"//@ rewrite (\S+) `(.*)` => `(.*)`", t)
                    if not m:
                        raise TemplateError(f"{path}:{i+1}: bad rewrite")
                    blk["rewrites"].append((m.group(1), m.group(2), m.group(3), False))
                elif t.startswith("//@ region-sig <<"):
                    blk["region_sig"], i = multiline(i)
                elif t.startswith("//@ region-tail <<"):
                    blk["region_tail"], i = multiline(i)
                elif t.startswith("//@ region `") or t.startswith("//@ region ^") or t.startswith("//@ region >`"):
                    # X16 region extraction: only the block statement that starts on the line containing the anchor
                    # (through its matching brace) is taken from the function; the template supplies a signature whose
                    # parameters are the region's free variables (region-sig) and the statements after it (region-tail)
                    # `^` as the start anchor: the region starts with the first statement of the body;
                    # `..< `b``: the region ends just before the line that contains b (b itself is not part of it)
                    # `>`a``: the region starts right AFTER the block statement that begins at a;  `..$`: it runs to the end of the body
                    blk["region_after"] = False
                    blk["region_to_end"] = False
                    if t.startswith("//@ region >`"):
                        blk["region_after"] = True
                        t = "//@ region `" + t[len("//@ region >`"):]
                    if t.rstrip().endswith("..$"):
                        blk["region_to_end"] = True
                        t = t.rstrip()[:-3].rstrip()
                    mr = re.match(r"//@ region (?:`(.*?)`|(\^))(?: \.\.([;<]?) `(.*)`)?\s*$", t)
                    blk["region"] = mr.group(1) if mr.group(1) is not None else "^"
                    blk["region_to"] = mr.group(4)   # optional: the block statement that ends the region starts at this anchor
                    blk["region_to_stmt"] = mr.group(3) == ";"   # `..;`: the region ends with the plain statement that contains the anchor
                    blk["region_to_excl"] = mr.group(3) == "<"
                elif t.startswith("//@ prefix "):
                    blk["prefix"].append(lines[i].split("//@ prefix ", 1)[1])
                elif t == "//@ external-body":
                    blk["external_body"] = True
                elif t == "//@ optional":
                    blk["optional"] = True
                elif t == "" or t.startswith("//"):
                    pass
                else:
                    raise TemplateError(f"{path}:{i+1}: unexpected line in extract block: {t}")
                i += 1
            segs.append(("extract", blk))
        elif s.startswith("//@ stubs "):
            # every free function of <file> that returns <Type> and takes only scalar / byte-slice / string parameters is
            # declared as an opaque external function, unless the template already extracts or defines it: error
            # constructors the extracted code may come to call (their payload is never inspected)
            flush()
            m = re.match(r"//@ stubs (\S+) -> (\w+)", s)
            segs.append(("stubs", dict(file=m.group(1), ret=m.group(2))))
        elif s.startswith("//@ contract-lemma "):
            meta["contract_lemmas"].add(s.split()[2])
        elif s.startswith("//@ min-verified "):
            meta["min_verified"] = int(s.split()[2])
        else:
            raw.append(ln)
        i += 1
    flush()
    return segs, meta


def build_item(repo: str, blk: dict, report: dict):
    """returns list of (text_line, origin) for one extracted item"""
    rf = RustFile(os.path.join(repo, blk["file"]))
    it = rf.find_item(blk["path"])
    orig = rf.text(it["start"], it["end"])
    log = []
    sha = hashlib.sha256(re.sub(r"\s+", " ", orig).encode()).hexdigest()[:16]
    text = _strip_x1_x2(orig, log)
    text = _strip_x3(text, log)
    for rule, a, b, is_re in blk["rewrites"]:
        if is_re:
            new, n = re.subn(a, b, text)
        else:
            n = text.count(a)
            new = text.replace(a, b)
        if n == 0 and is_re == "opt":
            continue
        if n == 0:
            raise LostAnchor(f"rewrite anchor `{a}` not found in {blk['path']}")
        log.append((rule, f"`{a}` => `{b}` x{n}"))
        text = new
    kind = blk["path"].split(" :: ")[-1].split()[0]
    name = blk["path"].split(" :: ")[-1].split(None, 1)[1]
    key = f"{blk['file']}::{blk['path']}"
    report["items"].append(dict(item=key, src_line=rf.line_of(it["kw"]), sha256_16=sha, rules=[f"{r}: {d}" for r, d in log],
                                external_body=blk["external_body"]))
    if kind == "const" and (blk["post"] or blk["inserts"]):
        # X6 on a const:  `const N: T = EXPR;`  ->  `exec const N: T ensures .. { proof {..} EXPR }`  (EXPR verbatim)
        m = re.match(r"\s*const\s+(\w+)\s*:\s*([^=]+?)\s*=\s*(.*);\s*(/\*.*\*/)?\s*$", text, re.S)
        if not m:
            raise TemplateError(f"{key}: cannot restructure const")
        out = [(p, "glue") for p in blk["prefix"]]
        out.append((f"exec const {m.group(1)}: {m.group(2)}", "sig"))
        if blk["post"]:
            out.append(("    ensures", "glue"))
            out += [(l, "post") for l in blk["post"].split("\n")]
        out.append(("{", "glue"))
        for where, anchor, txt in blk["inserts"]:
            out += [(l, "proof") for l in txt.split("\n")]
        out += [(l, "code") for l in m.group(3).split("\n")]
        out.append(("}", "glue"))
        return out
    if kind != "fn":
        lines = [(l, "code") for l in text.split("\n")]
        return [(p, "glue") for p in blk["prefix"]] + lines
    # --- function: split signature / body on the rewritten text
    mask = mask_source(text)
    # (a rewrite may have renamed the function -- a second, differently typed copy of the same source function)
    kw = (re.search(r"\bfn\s+" + re.escape(name) + r"\b", mask) or re.search(r"\bfn\s+\w+", mask)).start()
    p_open = mask.find("(", kw)
    p_close = match_brace(mask, p_open)
    b_open = find_body_open(mask, p_close + 1)
    bodiless = mask[b_open] == ";"
    b_close = b_open if bodiless else match_brace(mask, b_open)
    sig = text[:b_open].rstrip()
    body = text[b_open:b_close + 1]
    if blk.get("region"):
        bm = mask_source(body)
        if blk["region"] == "^":
            k = 1          # just after the opening brace of the body
            ls = 1
        else:
            k = body.find(blk["region"])
            if k < 0:
                raise LostAnchor(f"{key}: region anchor `{blk['region']}` not found")
            ls = body.rfind("\n", 0, k) + 1
            if blk.get("region_after"):
                ob0 = bm.find("{", k)
                cb0 = match_brace(bm, ob0)
                semi = bm.find(";", cb0)
                nl = body.find("\n", cb0)
                ls = (semi + 1) if (semi >= 0 and (nl < 0 or semi < nl)) else cb0 + 1
                k = ls
        k2 = k
        if blk.get("region_to"):
            k2 = body.find(blk["region_to"], k)
            if k2 < 0:
                raise LostAnchor(f"{key}: region end anchor `{blk['region_to']}` not found")
        if blk.get("region_to_end"):
            cb = len(body) - 2       # up to, not including, the closing brace of the body
            while cb > ls and body[cb] in " \n\t":
                cb -= 1
        elif blk.get("region_to_excl"):
            cb = body.rfind("\n", 0, k2)
            if cb < ls:
                cb = ls - 1      # nothing precedes the end anchor: the region is empty
        elif blk.get("region_to_stmt"):
            depth, cb = 0, None
            for q in range(k2, len(bm)):
                ch = bm[q]
                if ch in "([{":
                    depth += 1
                elif ch in ")]}":
                    depth -= 1
                elif ch == ";" and depth == 0:
                    cb = q
                    break
            if cb is None:
                raise LostAnchor(f"{key}: no end of statement after region end anchor `{blk['region_to']}`")
        else:
            ob = bm.find("{", k2)
            cb = match_brace(bm, ob)
        region = body[ls:cb + 1]
        log.append(("X16", f"region `{blk['region']}` ({region.count(chr(10)) + 1} lines) of {name} placed in a template-provided signature"))
        report["items"][-1]["rules"] = [f"{r}: {d}" for r, d in log]
        sig = blk.get("region_sig", "").rstrip()
        body = "{\n" + region + "\n" + blk.get("region_tail", "") + "\n}"
        m2 = re.search(r"\bfn\s+(\w+)", sig)
        if not m2:
            raise TemplateError(f"{key}: region-sig must contain a fn signature")
        p_close = match_brace(mask_source(sig), sig.find("(", m2.start()))
    if blk["ret"]:
        m = re.search(r"->\s*", sig[p_close:])
        if not m:
            raise TemplateError(f"{key}: ret given but no return type")
        cut = p_close + m.end()
        # return type runs to 'where' or end
        rest = sig[cut:]
        wm = re.search(r"\bwhere\b", rest)
        rty = rest[:wm.start()].rstrip() if wm else rest.rstrip()
        tail = rest[wm.start():] if wm else ""
        sig = sig[:cut] + f"({blk['ret']}: {rty})" + (" " + tail if tail else "")
    out = [(p, "glue") for p in blk["prefix"]]
    if blk["external_body"]:
        out.append(("#[verifier::external_body]", "glue"))
    out += [(l, "sig") for l in sig.split("\n")]
    if blk["pre"]:
        out.append(("    requires", "glue"))
        out += [(l, "pre") for l in blk["pre"].split("\n")]
    if blk["post"]:
        out.append(("    ensures", "glue"))
        out += [(l, "post") for l in blk["post"].split("\n")]
    if blk["dec"]:
        out.append(("    decreases", "glue"))
        out += [(l, "dec") for l in blk["dec"].split("\n")]
    if bodiless:
        # a required trait method: signature + contract, terminated by ';'
        out.append((";", "glue"))
        return out
    if blk["external_body"]:
        out.append(("{ unimplemented!() }", "glue"))
        return out
    # --- body with insertions
    bmask = mask_source(body)
    ins = []  # (offset, text, origin)
    loops = find_loops(bmask)

    def loop_no(k):
        # an ordinal, or the first loop whose header (keyword .. opening brace) contains the anchor text
        if isinstance(k, int):
            return k
        opt = k.startswith("?")
        k = k.lstrip("?")
        for q, (a, b) in enumerate(loops):
            if k in body[a:b]:
                return q
        if opt:
            return None
        raise LostAnchor(f"{key}: no loop with `{k}` in its header ({len(loops)} loops)")
    for n, txt in blk["loops"].items():
        n = loop_no(n)
        if n is None:
            continue
        if n >= len(loops):
            raise LostAnchor(f"{key}: loop #{n} not found ({len(loops)} loops)")
        ins.append((loops[n][1], "\n" + txt + "\n", "inv"))
    for where, anchor, txt in blk["inserts"]:
        if where == "bodystart":
            ins.append((1, "\n" + txt + "\n", "proof"))
            continue
        if where in ("afterloop", "startloop", "endloop"):
            anchor = loop_no(anchor)
            if anchor is None:
                continue
        if where == "afterloop":
            if anchor >= len(loops):
                raise LostAnchor(f"{key}: loop #{anchor} not found ({len(loops)} loops)")
            close = match_brace(bmask, loops[anchor][1])
            ins.append((close + 1, "\n" + txt + "\n", "proof"))
            continue
        if where == "startloop":
            if anchor >= len(loops):
                raise LostAnchor(f"{key}: loop #{anchor} not found ({len(loops)} loops)")
            ins.append((loops[anchor][1] + 1, "\n" + txt + "\n", "proof"))
            continue
        if where == "endloop":
            if anchor >= len(loops):
                raise LostAnchor(f"{key}: loop #{anchor} not found ({len(loops)} loops)")
            close = match_brace(bmask, loops[anchor][1])
            ins.append((close, "\n" + txt + "\n", "proof"))
            continue
        optional = where.endswith("?")
        where = where.rstrip("?")
        nth = 1
        if "#" in where:
            where, nn = where.split("#")
            nth = int(nn)
        k = -1
        for _ in range(nth):
            k = body.find(anchor, k + 1)
            if k < 0:
                break
        if k < 0 and optional:
            log.append(("X6", f"optional hint dropped: anchor `{anchor}` absent"))
            continue
        if k < 0:
            raise LostAnchor(f"{key}: anchor `{anchor}` (occurrence {nth}) not found")
        ks = [k]
        if where.endswith("all"):
            while True:
                k2 = body.find(anchor, ks[-1] + len(anchor))
                if k2 < 0:
                    break
                ks.append(k2)
        for k in ks:
            if where.startswith("before"):
                ls = body.rfind("\n", 0, k) + 1
                ins.append((ls, txt + "\n", "proof"))
            else:
                le = body.find("\n", k)
                le = len(body) if le < 0 else le
                ins.append((le, "\n" + txt, "proof"))
    ins.sort(key=lambda t: t[0])
    pos = 0
    pieces = []
    for off, txt, origin in ins:
        pieces.append((body[pos:off], "code"))
        pieces.append((txt, origin))
        pos = off
    pieces.append((body[pos:], "code"))
    # flatten to lines with origin; a line takes the origin of its first non-blank piece
    cur = ""
    cur_or = None
    for txt, origin in pieces:
        parts = txt.split("\n")
        for idx, p in enumerate(parts):
            if idx > 0:
                out.append((cur, cur_or or origin))
                cur, cur_or = "", None
            if p.strip() and cur_or is None:
                cur_or = origin
            cur += p
    out.append((cur, cur_or or "code"))
    return out


def _splice(name: str, repo: str) -> str:
    """text generated from /repo on this run and spliced into a template at `//@ splice <name>`"""
    if name == "compose":
        import compose_verus
        return compose_verus.render(repo)
    raise TemplateError(f"unknown splice {name}")


def build_unit(repo: str, template: str, out_path: str):
    segs, meta = parse_template(template)
    report = dict(template=os.path.relpath(template, "/verif"), items=[], lost=[])
    lines = []  # (text, origin, item)
    # names the template itself provides (extracted or written out): never stubbed a second time
    provided = set()
    for kind, payload in segs:
        if kind == "raw":
            provided.update(re.findall(r"\bfn\s+([A-Za-z_][A-Za-z0-9_]*)", payload))
        elif kind == "extract":
            provided.add(payload["path"].split(" :: ")[-1].split()[-1])
    for kind, payload in segs:
        if kind == "stubs":
            src = open(os.path.join(repo, payload["file"]), encoding="utf-8").read()
            ok_ty = re.compile(r"^(usize|u64|u32|u16|u8|i64|i32|bool|&\[u8\]|Vec<u8>|&str|String)$")
            n = 0
            for m in re.finditer(r"^(?:pub(?:\(crate\))?\s+)?fn\s+([a-z_0-9]+)\(([^)]*)\)\s*->\s*%s\s*\{" % re.escape(payload["ret"]), src, re.M | re.S):
                name, params = m.group(1), m.group(2)
                if name in provided:
                    continue
                ps = [x.strip() for x in params.split(",") if x.strip()]
                if not all(":" in x and ok_ty.match(x.split(":", 1)[1].strip()) for x in ps):
                    continue
                lines.append(("#[verifier::external_body]", "glue", None))
                lines.append((f"fn {name}({', '.join(ps)}) -> {payload['ret']} {{ unimplemented!() }}", "glue", None))
                provided.add(name)
                n += 1
            report["items"].append(dict(item=f"{payload['file']}::stubs -> {payload['ret']}", src_line=0, sha256_16="", rules=[f"X8: {n} error constructors declared opaque"], external_body=True))
            continue
        if kind == "raw":
            for l in payload.split("\n"):
                if l.strip().startswith("//@ splice "):
                    for g in _splice(l.strip().split()[2], repo).split("\n"):
                        lines.append((g, "generated", None))
                    continue
                lines.append((l, "spec", None))
        else:
            try:
                for l, o in build_item(repo, payload, report):
                    lines.append((l, o, payload["path"]))
            except LostAnchor as e:
                if payload["optional"]:
                    report["lost"].append(str(e))
                    continue
                raise
    os.makedirs(os.path.dirname(out_path), exist_ok=True)
    with open(out_path, "w") as f:
        f.write("\n".join(l for l, _, _ in lines) + "\n")
    linemap = {i + 1: (o, it) for i, (l, o, it) in enumerate(lines)}
    return linemap, meta, report


def fn_ranges(path: str):
    """[(name, start_line, end_line)] of every fn in the generated file"""
    src = open(path).read()
    mask = mask_source(src)
    res = []
    for m in re.finditer(r"\bfn\s+([A-Za-z_][A-Za-z0-9_]*)", mask):
        p = mask.find("(", m.end())
        if p < 0:
            continue
        try:
            pc = match_brace(mask, p)
        except LostAnchor:
            continue
        k = find_fn_body_open(mask, pc + 1)
        if k < 0 or mask[k] == ";":
            continue
        try:
            e = match_brace(mask, k)
        except LostAnchor:
            continue
        res.append((m.group(1), src.count("\n", 0, m.start()) + 1, src.count("\n", 0, e) + 1, m.start()))
    # a short name used by several fns of the file (e.g. three `load`s) is qualified by the type of its impl block
    impls = []
    for m in re.finditer(r"\bimpl\b([^{;]*)\{", mask):
        try:
            e = match_brace(mask, m.end() - 1)
        except LostAnchor:
            continue
        hdr = m.group(1)
        hdr = hdr.split(" for ")[-1] if " for " in hdr else hdr
        hdr = re.sub(r"^\s*<[^>]*>\s*", "", hdr)
        t = re.match(r"\s*([A-Za-z_][A-Za-z0-9_]*)", hdr)
        if t:
            impls.append((m.start(), e, t.group(1)))
    counts = {}
    for n, _, _, _ in res:
        counts[n] = counts.get(n, 0) + 1
    out = []
    for n, a, b, pos in res:
        if counts[n] > 1:
            owner = [t for (s0, e0, t) in impls if s0 < pos < e0]
            if owner:
                n = f"{owner[-1]}::{n}"
        out.append((n, a, b))
    return out


CONTRACT_MSG = [
    ("postcondition not satisfied", "post"),
    ("precondition not satisfied", "pre@callsite"),
    ("possible arithmetic underflow/overflow", "no-overflow"),
    ("possible division by zero", "no-overflow"),
    ("possible bit shift underflow/overflow", "no-overflow"),
    ("assertion failed", "assert"),
    ("index out of bounds", "index-in-bounds"),
    ("precondition not met", "index-in-bounds"),      # "precondition not met: index in bounds for this access" (slices)
    ("unreachable", "assert"),
]
INTERNAL_MSG = [
    ("invariant not satisfied at end of loop body", "inv-step"),
    ("invariant not satisfied before loop", "inv-init"),
    ("decreases not satisfied", "decreases"),
    ("could not prove termination", "decreases"),
    ("loop invariant", "inv-step"),
]


def run_verus(gen_path: str, linemap: dict, meta: dict, unit: str, rlimit: float = 30, timeout: int = 900):
    """a contract-level failure is reported only if it persists under two other solver seeds: a proof that
    merely became unstable (e.g. after a harmless edit) must not raise an alarm"""
    r = _run_verus_once(gen_path, linemap, meta, unit, rlimit, timeout, seed=None)
    if r["status"] == "violation":
        persists = set((v["fn"], v["kind"]) for v in r["violations"])
        for seed in (7, 1000003):
            r2 = _run_verus_once(gen_path, linemap, meta, unit, rlimit * 2, timeout, seed=seed)
            persists &= set((v["fn"], v["kind"]) for v in r2["violations"])
            r["wall_s"] += r2["wall_s"]
        keep = [v for v in r["violations"] if (v["fn"], v["kind"]) in persists]
        unstable = [v for v in r["violations"] if (v["fn"], v["kind"]) not in persists]
        for v in unstable:
            r["undecided"].append(dict(obligation=v["obligation"], kind="unstable", fn=v["fn"], line=v["line"],
                                       msg=v["msg"] + " (did not persist under other solver seeds: unstable proof, not a violation)", rendered=v["rendered"]))
        r["violations"] = keep
        if not keep:
            r["status"] = "undecided"
            r["reason"] = "contract-level failure did not persist under other solver seeds"
    return r


def _run_verus_once(gen_path: str, linemap: dict, meta: dict, unit: str, rlimit: float, timeout: int, seed=None):
    t0 = time.time()
    cmd = ["verus", gen_path, "--output-json", "--time-expanded", "--triggers-mode", "silent", "--multiple-errors", "5",
           "--rlimit", str(rlimit)]
    if seed is not None:
        cmd += ["--smt-option", f"smt.random_seed={seed}", "--smt-option", f"sat.random_seed={seed}"]
    cmd += ["--", "--error-format=json"]
    try:
        p = subprocess.run(cmd, capture_output=True, text=True, timeout=timeout, cwd=os.path.dirname(gen_path))
    except subprocess.TimeoutExpired:
        return dict(unit=unit, status="tool-error", reason=f"verus timeout {timeout}s", wall_s=time.time() - t0, cmd=" ".join(cmd),
                    functions=[], violations=[], undecided=[], verified=0, errors=0)
    wall = time.time() - t0
    try:
        js = json.loads(p.stdout[p.stdout.index("{"):])
    except Exception:
        js = {}
    diags = []
    for l in p.stderr.split("\n"):
        l = l.strip()
        if l.startswith("{"):
            try:
                diags.append(json.loads(l))
            except Exception:
                pass
    ranges = fn_ranges(gen_path)

    def enclosing(line):
        best = None
        for n, a, b in ranges:
            if a <= line <= b and (best is None or a >= best[1]):
                best = (n, a, b)
        return best[0] if best else "?"

    vr = js.get("verification-results", {})
    funcs = []
    for mod in js.get("times-ms", {}).get("smt", {}).get("smt-run-module-times", []):
        for fb in mod.get("function-breakdown", []):
            funcs.append(dict(name=fb["function"], mode=fb.get("mode:"), solver_ms=fb.get("time"), rlimit=fb.get("rlimit"),
                              success=fb.get("success")))
    violations, undecided, tool = [], [], []
    for d in diags:
        if d.get("level") != "error":
            continue
        msg = d.get("message", "")
        if msg.startswith("aborting due to"):
            continue
        prim = [s for s in d.get("spans", []) if s.get("is_primary")]
        line = prim[0]["line_start"] if prim else 0
        all_lines = [s["line_start"] for s in d.get("spans", [])]
        origin, item = linemap.get(line, ("?", None))
        fn = enclosing(line)
        # for pre/post, the function whose body is being verified is the one enclosing any span in code
        encl = [enclosing(l) for l in all_lines]
        kind = None
        for pat, k in CONTRACT_MSG:
            if pat in msg:
                kind = k
                break
        internal = None
        for pat, k in INTERNAL_MSG:
            if pat in msg:
                internal = k
                break
        rendered = (d.get("rendered") or msg)[:1500]
        if "rlimit" in msg.lower() or "resource limit" in msg.lower():
            tool.append(dict(kind="rlimit", fn=fn, msg=msg, rendered=rendered))
            continue
        if internal:
            # an invariant marked `/* contract-inv */` in the template is the postcondition stated for a prefix of the
            # input ("everything up to the cursor has been copied"): the loop body failing to preserve it is the failure
            # of the property for one more element, and is reported as such
            cinv = False
            if internal in ("inv-step", "inv-init"):
                try:
                    gl = _gen_lines(gen_path)
                    cands = [l for l in all_lines if 0 < l <= len(gl)]
                    cinv = any("contract-inv" in gl[l - 1] for l in cands)
                except Exception:
                    cinv = False
            if cinv:
                violations.append(dict(obligation=f"{unit}::{fn}::inv", kind="inv", fn=fn, line=line, msg=msg + " (invariant that states the postcondition for a prefix)", rendered=rendered))
            else:
                undecided.append(dict(obligation=f"{unit}::{fn}::{internal}", kind=internal, fn=fn, line=line, msg=msg, rendered=rendered))
            continue
        if kind is None:
            tool.append(dict(kind="verus-error", fn=fn, msg=msg, rendered=rendered))
            continue
        # where is the failing *code*?  For pre@callsite / assert / overflow the primary span is the
        # code location.  Origin 'proof'/'spec'/'inv' => proof-internal (lemma call, proof assert).
        code_origins = {"code", "sig"}
        if kind == "post":
            # primary = failed ensures clause; the function is the one containing it -- for a clause of a
            # TRAIT method's contract the body being verified is named by the secondary span
            if fn == "?":
                others = [e for e, l in zip(encl, all_lines) if e != "?" and l != line]
                if others:
                    fn = others[0]
            in_extracted = origin == "post"
            is_contract_lemma = fn in meta["contract_lemmas"]
            if in_extracted or is_contract_lemma:
                violations.append(dict(obligation=f"{unit}::{fn}::post", kind="post", fn=fn, line=line, msg=msg, rendered=rendered))
            else:
                undecided.append(dict(obligation=f"{unit}::{fn}::lemma", kind="lemma", fn=fn, line=line, msg=msg, rendered=rendered))
        else:
            # `assert forall|post| callee_post(..) implies fn_post(..)` marked tail-post is how the postcondition of a
            # function that ends in a tail call is stated (Verus checks a tail call's result against the ensures
            # only through such a quantified step): its failure is the failure of that postcondition
            tail_post = False
            if kind == "assert" and origin not in code_origins:
                try:
                    gl = _gen_lines(gen_path)
                    tail_post = any("tail-post" in gl[k] for k in range(max(0, line - 4), min(len(gl), line)))
                except Exception:
                    tail_post = False
            if tail_post:
                violations.append(dict(obligation=f"{unit}::{fn}::post", kind="post", fn=fn, line=line, msg=msg + " (postcondition at a tail call)", rendered=rendered))
            elif origin in code_origins:
                violations.append(dict(obligation=f"{unit}::{fn}::{kind}", kind=kind, fn=fn, line=line, msg=msg, rendered=rendered))
            elif fn in meta["contract_lemmas"]:
                violations.append(dict(obligation=f"{unit}::{fn}::{kind}", kind=kind, fn=fn, line=line, msg=msg, rendered=rendered))
            else:
                undecided.append(dict(obligation=f"{unit}::{fn}::proof-{kind}", kind="lemma", fn=fn, line=line, msg=msg, rendered=rendered))
    verified = vr.get("verified", 0)
    errors = vr.get("errors", 0)
    status = "ok"
    reason = ""
    if tool or not vr or vr.get("encountered-vir-error"):
        status = "tool-error"
        reason = "; ".join(t["msg"] for t in tool)[:800] or (p.stderr[-800:] if not vr else "vir error")
    elif violations:
        status = "violation"
    elif undecided or errors:
        status = "undecided"
    elif verified < meta["min_verified"]:
        status = "tool-error"
        reason = f"vacuity guard: only {verified} functions verified, expected >= {meta['min_verified']}"
    return dict(unit=unit, status=status, reason=reason, wall_s=wall, cmd=" ".join(cmd), functions=funcs, violations=violations,
                undecided=undecided, tool=tool, verified=verified, errors=errors,
                smt_ms=js.get("times-ms", {}).get("smt", {}).get("smt-run"), total_ms=js.get("times-ms", {}).get("total"))


_GEN_CACHE = {}


def _gen_lines(gen_path: str):
    st = os.stat(gen_path)
    key = (gen_path, st.st_mtime_ns, st.st_size)
    if key not in _GEN_CACHE:
        _GEN_CACHE.clear()
        _GEN_CACHE[key] = open(gen_path).read().split("\n")
    return _GEN_CACHE[key]


def scan_assumptions(gen_path: str):
    """mechanical scan of the generated file (DESIGN 2.4)"""
    src = open(gen_path).read()
    res = []
    ranges = fn_ranges(gen_path)
    lines = src.split("\n")
    for i, l in enumerate(lines):
        s = l.strip()
        if s.startswith("//"):
            continue
        for tok in ("assume(", "admit(", "external_body", "assume_specification", "external_fn_specification", "#[verifier::external"):
            if tok in l:
                nxt = ""
                for j in range(i, min(i + 6, len(lines))):
                    m = re.search(r"\b(fn|struct|enum)\s+([A-Za-z_][A-Za-z0-9_:<>]*)", lines[j])
                    if m:
                        nxt = m.group(0)
                        break
                res.append(f"verus {os.path.basename(gen_path)}:{i+1}: {tok.strip('(#[')} -> {nxt or s[:80]}")
                break
    return res
