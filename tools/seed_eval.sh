#!/bin/bash
# dev tool: run a property check against a seeded patch applied in a scratch worktree (never /repo)
# usage: seed_eval.sh PID WT PATCH [extra check args]
pid=$1; wt=$2; patch=$(readlink -f $3); shift 3
tag=$(basename $(dirname $patch))-$(basename $wt)
git -C $wt checkout -- . && git -C $wt apply $patch || exit 3
VERIF_NO_EVIDENCE=1 VERIF_BUILD=/verif/build/seed-$pid-$tag VERIF_REPLAY=/verif/build/seed-$pid-$tag/replay /verif/check $pid --repo $wt --tier quick "$@"
rc=$?
git -C $wt checkout -- .
echo "seed_eval rc=$rc"
