"""Minimal Rust source scanner: masks comments/strings, locates items by path, brace-matches.

Used by both routes (Verus extraction, Kani injection).  It never rewrites code; it only finds
byte ranges in the file as it is in /repo's working tree.
"""
import re


class LostAnchor(Exception):
    pass


def mask_source(src: str) -> str:
    """Return a string of identical length where comments, string/char literal contents are spaces
    (newlines kept)."""
    out = list(src)
    n = len(src)
    i = 0

    def blank(a, b):
        for k in range(a, b):
            if out[k] != "\n":
                out[k] = " "

    while i < n:
        c = src[i]
        if c == "/" and i + 1 < n and src[i + 1] == "/":
            j = src.find("\n", i)
            if j < 0:
                j = n
            blank(i, j)
            i = j
        elif c == "/" and i + 1 < n and src[i + 1] == "*":
            depth = 1
            j = i + 2
            while j < n and depth:
                if src.startswith("/*", j):
                    depth += 1
                    j += 2
                elif src.startswith("*/", j):
                    depth -= 1
                    j += 2
                else:
                    j += 1
            blank(i, j)
            i = j
        elif c == '"' or (c in "br" and re.match(r'(b?r#*"|b")', src[i:i + 8]) and (i == 0 or not (src[i - 1].isalnum() or src[i - 1] == "_"))):
            m = re.match(r'(b?)(r(#*))?"', src[i:i + 12])
            if not m:
                i += 1
                continue
            start = i
            j = i + m.end()
            if m.group(2):  # raw
                closer = '"' + (m.group(3) or "")
                k = src.find(closer, j)
                j = n if k < 0 else k + len(closer)
            else:
                while j < n and src[j] != '"':
                    if src[j] == "\\":
                        j += 1
                    j += 1
                j += 1
            blank(start, j)
            i = j
        elif c == "'":
            # char literal or lifetime
            if i + 1 < n and src[i + 1] == "\\":
                j = src.find("'", i + 2)
                # handle '\''
                if j == i + 2:
                    j = src.find("'", i + 3)
                j = n if j < 0 else j + 1
                blank(i, j)
                i = j
            elif i + 2 < n and src[i + 2] == "'":
                blank(i, i + 3)
                i += 3
            else:
                # multi-byte char literal like 'é' : look for closing quote within 5 chars w/o ident chars
                m = re.match(r"'[^'\\\n]'", src[i:i + 8])
                if m and not re.match(r"'[A-Za-z_][A-Za-z0-9_]*[^']", src[i:i + 8]):
                    blank(i, i + m.end())
                    i += m.end()
                else:
                    i += 1
        else:
            i += 1
    return "".join(out)


def match_brace(mask: str, open_idx: int) -> int:
    """index of the matching closer for the opener at open_idx ((), [], {})."""
    pairs = {"{": "}", "(": ")", "[": "]"}
    o = mask[open_idx]
    c = pairs[o]
    depth = 0
    for k in range(open_idx, len(mask)):
        ch = mask[k]
        if ch == o:
            depth += 1
        elif ch == c:
            depth -= 1
            if depth == 0:
                return k
    raise LostAnchor(f"unbalanced {o} at {open_idx}")


def find_body_open(mask: str, k: int, hi: int = None) -> int:
    """first `{` or `;` at ()/[] depth 0 at or after k (skips `[u8; N]` return types)"""
    hi = len(mask) if hi is None else hi
    d = 0
    while k < hi:
        ch = mask[k]
        if ch in "([":
            d += 1
        elif ch in ")]":
            d -= 1
        elif ch in "{;" and d == 0:
            return k
        k += 1
    return -1


def find_fn_body_open(mask: str, k: int, hi: int = None) -> int:
    """body `{` (or `;`) of a fn whose parameter list ends before k.  In Verus text the signature may be followed by
    requires/ensures/decreases clauses that contain `{` (match, blocks): those are skipped -- the body is the first
    top-level `{` that is not inside a clause expression, i.e. the first one that starts its line or directly follows
    the return type when no clause keyword has been seen."""
    hi = len(mask) if hi is None else hi
    d = 0
    seen_clause = False
    i = k
    while i < hi:
        ch = mask[i]
        if ch in "([":
            d += 1
        elif ch in ")]":
            d -= 1
        elif d == 0 and ch == ";":
            return i
        elif d == 0 and mask.startswith(("requires", "ensures", "decreases", "recommends"), i) and (i == 0 or not (mask[i - 1].isalnum() or mask[i - 1] == "_")):
            seen_clause = True
        elif d == 0 and ch == "{":
            ls = mask.rfind("\n", 0, i) + 1
            at_line_start = mask[ls:i].strip() == ""
            if not seen_clause or at_line_start:
                return i
            # a brace group on a clause line: part of the clause expression (`match x { .. }`, a block) when something
            # that continues the clause list follows it; otherwise it is the body written on the same line
            c = match_brace(mask, i)
            j = c + 1
            while j < hi and mask[j] in " \t\r\n":
                j += 1
            rest = mask[j:j + 12]
            if j >= hi or not (rest[:1] in ",&|=<>+-*/.?:)" or rest.startswith(("requires", "ensures", "decreases", "recommends", "{", "by", "via", "when"))):
                return i
            i = c
        i += 1
    return -1


def _norm(s: str) -> str:
    return re.sub(r"\s+", "", s)


class RustFile:
    def __init__(self, path: str, text: str = None):
        self.path = path
        self.src = text if text is not None else open(path, encoding="utf-8").read()
        self.mask = mask_source(self.src)

    # ---- helpers
    def _depth_at(self, lo: int, hi: int, idx: int) -> int:
        d = 0
        for k in range(lo, idx):
            ch = self.mask[k]
            if ch == "{":
                d += 1
            elif ch == "}":
                d -= 1
        return d

    def _item_start(self, kw_idx: int, lo: int) -> int:
        """walk back from a keyword to the start of the item incl. attributes, doc comments, pub."""
        k = kw_idx - 1
        while k >= lo:
            ch = self.mask[k]
            if ch in ";{}":
                break
            if ch == "]":
                # attribute: skip back to its '#['
                depth = 0
                while k >= lo:
                    if self.mask[k] == "]":
                        depth += 1
                    elif self.mask[k] == "[":
                        depth -= 1
                        if depth == 0:
                            break
                    k -= 1
            k -= 1
        start = k + 1
        # skip leading whitespace but keep from the beginning of the first non-blank line
        while start < kw_idx and self.mask[start] in " \t\r\n":
            start += 1
        # doc comments are masked; src[start] may be '/' of '///' — fine, we keep them (X1 strips)
        return start

    def find_impl(self, header: str, lo=0, hi=None, nth=0):
        """find `impl<..> HEADER {`; header compared whitespace-insensitively against the text between
        `impl` (and its generics) and the opening brace (where-clauses included)."""
        hi = len(self.mask) if hi is None else hi
        want = _norm(header)
        for m in re.finditer(r"\bimpl\b", self.mask[lo:hi]):
            a = lo + m.start()
            if self._depth_at(lo, hi, a) != 0:
                continue
            b = self.mask.find("{", a)
            if b < 0:
                continue
            head = self.src[a + 4:b]
            hn = _norm(re.sub(r"\s+", " ", self.mask[a + 4:b]))
            # strip leading generics
            hn2 = hn
            if hn.startswith("<"):
                d = 0
                for k, ch in enumerate(hn):
                    if ch == "<":
                        d += 1
                    elif ch == ">" and (k == 0 or hn[k - 1] != "-"):
                        d -= 1
                        if d == 0:
                            hn2 = hn[k + 1:]
                            break
            if hn == want or hn2 == want:
                if nth > 0:
                    nth -= 1
                    continue
                return a, b, match_brace(self.mask, b)
        raise LostAnchor(f"impl {header} not found in {self.path}")

    def find_mod(self, name: str, lo=0, hi=None):
        hi = len(self.mask) if hi is None else hi
        for m in re.finditer(r"\bmod\s+" + re.escape(name) + r"\s*\{", self.mask[lo:hi]):
            a = lo + m.start()
            if self._depth_at(lo, hi, a) != 0:
                continue
            b = lo + m.end() - 1
            return a, b, match_brace(self.mask, b)
        raise LostAnchor(f"mod {name} not found in {self.path}")

    def find_item(self, path: str):
        """like _find_item, but when several `impl HEADER` blocks exist the item is looked for in each"""
        last = None
        for nth in range(0, 8):
            try:
                return self._find_item(path, nth)
            except LostAnchor as e:
                last = e
                if "impl " not in path or (str(e).startswith("impl ") and " :: " not in str(e).split(" not found")[0]):
                    break
        raise last

    def _find_item(self, path: str, impl_nth: int = 0):
        """path grammar:  [impl HEADER ::] [mod NAME ::] KIND NAME
        KIND in fn|const|static|struct|enum|type|trait.  Returns dict(start,end,kw,body_open,body_close,sig_end)."""
        lo, hi = 0, len(self.mask)
        parts = [p.strip() for p in path.split(" :: ")]
        inner_depth = 0
        for p in parts[:-1]:
            if p.startswith("impl "):
                a, b, c = self.find_impl(p[5:], lo, hi, impl_nth)
            elif p.startswith("mod "):
                a, b, c = self.find_mod(p[4:], lo, hi)
            elif p.startswith("trait "):
                m = None
                for mm in re.finditer(r"\btrait\s+" + re.escape(p[6:].strip()) + r"\b", self.mask[lo:hi]):
                    if self._depth_at(lo, hi, lo + mm.start()) == 0:
                        m = mm
                        break
                if not m:
                    raise LostAnchor(f"{p} not found in {self.path}")
                b = self.mask.find("{", lo + m.end())
                c = match_brace(self.mask, b)
            elif p.startswith("fn "):
                # a function used as a container of nested items
                m = None
                for mm in re.finditer(r"\bfn\s+" + re.escape(p[3:].strip()) + r"\b", self.mask[lo:hi]):
                    if self._depth_at(lo, hi, lo + mm.start()) == 0:
                        m = mm
                        break
                if not m:
                    raise LostAnchor(f"{p} not found in {self.path}")
                p_open = self.mask.find("(", lo + m.end())
                p_close = match_brace(self.mask, p_open)
                b = find_body_open(self.mask, p_close + 1, hi)
                if b < 0 or self.mask[b] != "{":
                    raise LostAnchor(f"{p}: no body")
                c = match_brace(self.mask, b)
            else:
                raise LostAnchor(f"bad path component {p}")
            lo, hi = b + 1, c
        kind, name = parts[-1].split(None, 1)
        name = name.strip()
        pat = r"\b" + kind + r"\s+" + re.escape(name) + r"\b"
        for m in re.finditer(pat, self.mask[lo:hi]):
            a = lo + m.start()
            if self._depth_at(lo, hi, a) != 0:
                continue
            start = self._item_start(a, lo)
            if kind == "fn":
                # body '{' : first '{' at paren/angle-free depth after the parameter list
                p_open = self.mask.find("(", a)
                p_close = match_brace(self.mask, p_open)
                k = find_body_open(self.mask, p_close + 1, hi)
                if k < 0:
                    raise LostAnchor(f"fn {name}: no body")
                if self.mask[k] == ";":
                    return dict(start=start, end=k + 1, kw=a, body_open=None, body_close=None, params=(p_open, p_close))
                c = match_brace(self.mask, k)
                return dict(start=start, end=c + 1, kw=a, body_open=k, body_close=c, params=(p_open, p_close))
            elif kind in ("const", "static", "type"):
                k = a
                d = 0
                while k < hi:
                    ch = self.mask[k]
                    if ch in "([{":
                        d += 1
                    elif ch in ")]}":
                        d -= 1
                    elif ch == ";" and d == 0:
                        break
                    k += 1
                return dict(start=start, end=k + 1, kw=a)
            else:  # struct / enum / trait
                k = a
                # skip a generic parameter list (it may contain `FnMut() -> T` bounds)
                mg = re.match(r"\w+\s+\w+\s*<", self.mask[a:hi])
                if mg:
                    k = a + mg.end() - 1
                    d = 0
                    while k < hi:
                        ch = self.mask[k]
                        if ch == "<":
                            d += 1
                        elif ch == ">" and self.mask[k - 1] != "-":
                            d -= 1
                            if d == 0:
                                k += 1
                                break
                        k += 1
                while k < hi and self.mask[k] not in "{;(":
                    k += 1
                if self.mask[k] == ";":
                    return dict(start=start, end=k + 1, kw=a)
                c = match_brace(self.mask, k)
                e = c + 1
                if self.mask[k] == "(":  # tuple struct: ends at ';'
                    e = self.mask.find(";", c) + 1
                return dict(start=start, end=e, kw=a, body_open=k, body_close=c)
        raise LostAnchor(f"{path} not found in {self.path}")

    def text(self, a: int, b: int) -> str:
        return self.src[a:b]

    def line_of(self, idx: int) -> int:
        return self.src.count("\n", 0, idx) + 1


def find_loops(mask: str):
    """[(kw_index, open_brace_index)] for every for/while/loop in a masked function body, in order."""
    res = []
    for m in re.finditer(r"\b(for|while|loop)\b", mask):
        a = m.start()
        # 'for' in 'impl X for Y' or HRTB does not occur inside bodies we extract; skip `for<`
        if m.group(1) == "for" and re.match(r"for\s*<", mask[a:a + 8]):
            continue
        k = m.end()
        d = 0
        while k < len(mask):
            ch = mask[k]
            if ch in "([":
                d += 1
            elif ch in ")]":
                d -= 1
            elif ch == "{" and d == 0:
                break
            k += 1
        if k < len(mask):
            res.append((a, k))
    return res
