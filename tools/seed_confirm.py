#!/usr/bin/env python3
"""dev tool: confirm a seeded defect in a scratch worktree.
usage: seed_confirm.py WT SEEDDIR DEMO_DEST "DEMO_CMD" "SUITE_CMD[;;SUITE_CMD2]"
Runs: demo on clean tree (must pass), apply patch, demo (must fail), suites (must pass), revert."""
import json, os, subprocess, sys, shutil
wt, seed, dest, demo_cmd, suites = sys.argv[1:6]
env = dict(os.environ, CARGO_TARGET_DIR="/var/tmp/seed-target", CARGO_NET_OFFLINE="true")
def run(cmd, t=3600):
    p = subprocess.run(cmd, shell=True, cwd=wt, env=env, stdout=subprocess.PIPE, stderr=subprocess.STDOUT, text=True, timeout=t)
    return p.returncode, p.stdout[-1500:]
def sh(cmd): return subprocess.run(cmd, shell=True, cwd=wt, stdout=subprocess.PIPE, stderr=subprocess.STDOUT, text=True)
assert sh("git status --short --untracked-files=no").stdout.strip() == "", "worktree dirty"
demo_src = [f for f in os.listdir(seed) if f.endswith(".rs")]
assert len(demo_src) == 1, demo_src
os.makedirs(os.path.dirname(os.path.join(wt, dest)), exist_ok=True)
shutil.copy(os.path.join(seed, demo_src[0]), os.path.join(wt, dest))
res = {}
try:
    rc, out = run(demo_cmd); res["demo_clean_rc"] = rc; res["demo_clean_tail"] = out[-300:]
    a = sh(f"git apply {os.path.abspath(os.path.join(seed, 'patch.diff'))}"); assert a.returncode == 0, a.stdout
    rc, out = run(demo_cmd); res["demo_patched_rc"] = rc; res["demo_patched_tail"] = out[-600:]
    res["suites"] = []
    os.remove(os.path.join(wt, dest))
    for s in suites.split(";;"):
        rc, out = run(s); res["suites"].append(dict(cmd=s, rc=rc, tail=out[-300:] if rc else "ok"))
finally:
    sh("git checkout -- .")
    if os.path.exists(os.path.join(wt, dest)): os.remove(os.path.join(wt, dest))
res["confirmed"] = res.get("demo_clean_rc") == 0 and res.get("demo_patched_rc", 0) != 0 and all(s["rc"] == 0 for s in res.get("suites", [{"rc": 1}]))
print(json.dumps(res, indent=1))
