#!/usr/bin/env python3
"""Vacuity test of a generated Verus unit: insert `assert(false)` at the start of every function body that has a
`requires` clause (exec and proof) and check that Verus REJECTS each of them -- a precondition that excludes
everything would make the inserted assertion pass.  Usage: vacuity.py <unit> [repo]"""
import os
import re
import subprocess
import sys

sys.path.insert(0, os.path.dirname(__file__))
import verusx
from rustscan import mask_source, match_brace, find_fn_body_open

unit = sys.argv[1]
repo = sys.argv[2] if len(sys.argv) > 2 else "/repo"
out = f"/verif/build/{unit}.rs"
verusx.build_unit(repo, f"/verif/contracts/{unit}.verus.rs", out)
src = open(out).read()
mask = mask_source(src)
ins = []
for m in re.finditer(r"\bfn\s+([A-Za-z_][A-Za-z0-9_]*)", mask):
    p = mask.find("(", m.end())
    if p < 0:
        continue
    try:
        pc = match_brace(mask, p)
    except Exception:
        continue
    k = find_fn_body_open(mask, pc + 1)
    if k < 0 or mask[k] == ";":
        continue
    header = mask[m.start():k]
    if "requires" not in header:
        continue
    ls = src.rfind("\n", 0, m.start()) + 1
    prefix = src[ls:m.start()]
    if "spec" in prefix:
        continue
    attrs = src[max(0, ls - 300):ls].rstrip().split("\n")[-1]
    if "external_body" in attrs:
        continue
    ins.append((k + 1, m.group(1), "proof" in prefix))
names = []
for pos, name, is_proof in sorted(ins, reverse=True):
    src = src[:pos] + f"\n/*VAC {name}*/ " + ("assert(false);" if is_proof else "proof { assert(false); }") + "\n" + src[pos:]
    names.append(name)
tmp = f"/var/tmp/vac_{unit}.rs"
open(tmp, "w").write(src)
p = subprocess.run(["verus", tmp, "--multiple-errors", "200"], capture_output=True, text=True)
txt = p.stdout + p.stderr
failed = set(re.findall(r"/\*VAC (\w+)\*/", txt))
lines = src.split("\n")
# an error span shows the source line: collect VAC markers on reported lines
for mm in re.finditer(r"-->\s*%s:(\d+):" % re.escape(tmp), txt):
    ln = int(mm.group(1))
    mk = re.search(r"/\*VAC (\w+)\*/", lines[ln - 1])
    if mk:
        failed.add(mk.group(1))
vac = [n for n in names if n not in failed]
os.remove(tmp)
print(f"{unit}: {len(names)} functions with preconditions probed; vacuous: {vac if vac else 'none'}")
if "error: " in txt and not re.search(r"verification results", txt):
    print("  (verus did not complete:", [l for l in txt.split('\n') if l.startswith('error')][:3], ")")
sys.exit(1 if vac else 0)
