#!/usr/bin/env python3
"""Vacuity test of a generated Verus unit: insert `assert(false)` at the start of every function body that has a
`requires` clause (exec and proof) and check that Verus REJECTS each of them -- a precondition that excludes
everything would make the inserted assertion pass.  Usage: vacuity.py <unit> [repo]"""
import os
import re
import subprocess
import sys

sys.path.insert(0, os.path.dirname(os.path.abspath(__file__)))
import verusx
from rustscan import mask_source, match_brace, find_fn_body_open

HERE = os.path.dirname(os.path.dirname(os.path.abspath(__file__)))


def probe(unit: str, repo: str = "/repo", build: str = None):
    """-> dict(probed=[names], vacuous=[names], completed=bool)"""
    build = build or os.path.join(HERE, "build")
    os.makedirs(build, exist_ok=True)
    out = os.path.join(build, f"{unit}_vacsrc.rs")
    verusx.build_unit(repo, os.path.join(HERE, "contracts", f"{unit}.verus.rs"), out)
    src = open(out).read()
    mask = mask_source(src)
    ins = []
    for m in re.finditer(r"\bfn\s+([A-Za-z_][A-Za-z0-9_]*)", mask):
        p = mask.find("(", m.end())
        if p < 0:
            continue
        try:
            pc = match_brace(mask, p)
        except Exception:
            continue
        k = find_fn_body_open(mask, pc + 1)
        if k < 0 or mask[k] == ";":
            continue
        header = mask[m.start():k]
        if "requires" not in header:
            continue
        ls = src.rfind("\n", 0, m.start()) + 1
        prefix = src[ls:m.start()]
        if "spec" in prefix:
            continue
        attrs = src[max(0, ls - 300):ls].rstrip().split("\n")[-1]
        if "external_body" in attrs:
            continue
        ins.append((k + 1, m.group(1), "proof" in prefix))
    names = []
    for pos, name, is_proof in sorted(ins, reverse=True):
        src = src[:pos] + f"\n/*VAC {name}*/ " + ("assert(false);" if is_proof else "proof { assert(false); }") + "\n" + src[pos:]
        names.append(name)
    tmp = os.path.join(build, f"{unit}_vac.rs")
    open(tmp, "w").write(src)
    p = subprocess.run(["verus", tmp, "--multiple-errors", "400"], capture_output=True, text=True, cwd=build)
    txt = p.stdout + p.stderr
    lines = src.split("\n")
    failed = set()
    for mm in re.finditer(r"-->\s*%s:(\d+):" % re.escape(tmp), txt):
        ln = int(mm.group(1))
        mk = re.search(r"/\*VAC (\w+)\*/", lines[ln - 1])
        if mk:
            failed.add(mk.group(1))
    completed = bool(re.search(r"verification results", txt))
    for f in (tmp, out):
        try:
            os.remove(f)
        except OSError:
            pass
    return dict(probed=names, vacuous=[n for n in names if n not in failed], completed=completed,
                errors=[l for l in txt.split("\n") if l.startswith("error")][:3] if not completed else [])


if __name__ == "__main__":
    unit = sys.argv[1]
    r = probe(unit, sys.argv[2] if len(sys.argv) > 2 else "/repo")
    print(f"{unit}: {len(r['probed'])} functions with preconditions probed; vacuous: {r['vacuous'] if r['vacuous'] else 'none'}")
    if not r["completed"]:
        print("  (verus did not complete:", r["errors"], ")")
    sys.exit(1 if r["vacuous"] or not r["completed"] else 0)
