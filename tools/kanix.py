"""Kani route: inject contracts + one cfg(kani) module per unit into a scratch copy of the real
workspace (DESIGN.md 2.1), run the harnesses, parse results, play counterexamples back natively.

Template directives (contracts/<unit>.kani.rs):
  //@ package <cargo package>
  //@ modfile <path of the file the module is appended to>
  //@ flags <extra cargo-kani flags>                     (e.g. --lib --no-default-features)
  //@ attr <file> | <item path> << ... //@ >>          attribute lines inserted above the item
  //@ prepend <file> << ... //@ >>                     text inserted at the very top of a file
  //@ H kind=complete|bounded tier=quick|thorough timeout=<s> [bound="..."] [native=no] [finding=<id>] [oblig="..."]
       precedes each harness fn inside the module text
Everything else is the module text appended to modfile.
"""
import json
import os
import re
import shlex
import shutil
import subprocess
import time

from rustscan import RustFile, LostAnchor

SCRATCH_ROOT = os.environ.get("VERIF_SCRATCH", "/var/tmp/verif-scratch")


class Scratch:
    def __init__(self, repo: str, tag: str):
        self.repo = repo
        self.dir = os.path.join(SCRATCH_ROOT, f"{tag}-{os.getpid()}")
        self.ws = os.path.join(self.dir, "ws")

    def __enter__(self):
        shutil.rmtree(self.dir, ignore_errors=True)
        os.makedirs(self.dir)
        subprocess.run(["rsync", "-a", "--exclude", "/target", "--exclude", ".git", self.repo.rstrip("/") + "/", self.ws + "/"], check=True)
        os.makedirs(os.path.join(self.ws, ".cargo"), exist_ok=True)
        with open(os.path.join(self.ws, ".cargo", "config.toml"), "a") as f:
            f.write("\n[net]\noffline = true\n")
        return self

    def __exit__(self, *a):
        shutil.rmtree(self.dir, ignore_errors=True)
        try:
            os.rmdir(SCRATCH_ROOT)
        except OSError:
            pass


def parse_kv(s: str) -> dict:
    d = {}
    for m in re.finditer(r'(\w+)=("([^"]*)"|\S+)', s):
        d[m.group(1)] = m.group(3) if m.group(3) is not None else m.group(2)
    return d


def parse_template(path: str):
    lines = open(path, encoding="utf-8").read().split("\n")
    unit = dict(package=None, modfile=None, flags=[], attrs=[], prepends=[], module=[], harnesses=[], path=path)
    i = 0

    def multiline(i):
        body = []
        i += 1
        while i < len(lines) and lines[i].strip() != "//@ >>":
            body.append(lines[i])
            i += 1
        return "\n".join(body), i

    pending = None
    while i < len(lines):
        s = lines[i].strip()
        if s.startswith("//@ package "):
            unit["package"] = s.split()[2]
        elif s.startswith("//@ modfile "):
            unit["modfile"] = s.split()[2]
        elif s.startswith("//@ flags "):
            unit["flags"] += shlex.split(s[len("//@ flags "):])
        elif s.startswith("//@ attr "):
            m = re.match(r"//@ attr (\S+) \| (.*) <<", s)
            body, i = multiline(i)
            unit["attrs"].append((m.group(1), m.group(2).strip(), body))
        elif s.startswith("//@ prepend "):
            m = re.match(r"//@ prepend (\S+) <<", s)
            body, i = multiline(i)
            unit["prepends"].append((m.group(1), body))
        elif s.startswith("//@ include "):
            inc = os.path.join(os.path.dirname(path), s.split()[2])
            unit["module"] += open(inc, encoding="utf-8").read().split("\n")
        elif s.startswith("//@ H "):
            pending = parse_kv(s[6:])
            unit["module"].append(lines[i])
            if "name" in pending:
                pending.setdefault("kind", "bounded")
                pending.setdefault("tier", "quick")
                pending.setdefault("timeout", "600")
                unit["harnesses"].append(pending)
                pending = None
        else:
            if pending is not None:
                m = re.match(r"\s*(pub\s+)?fn\s+([A-Za-z_][A-Za-z0-9_]*)\s*\(", lines[i])
                if m:
                    pending["name"] = m.group(2)
                    pending.setdefault("kind", "bounded")
                    pending.setdefault("tier", "quick")
                    pending.setdefault("timeout", "600")
                    unit["harnesses"].append(pending)
                    pending = None
            unit["module"].append(lines[i])
        i += 1
    if not unit["package"] or not unit["modfile"]:
        raise ValueError(f"{path}: package/modfile missing")
    # fully qualified module path of the injected module (for `--exact` harness selection)
    rel = unit["modfile"].split("/src/", 1)[1][:-3].split("/")
    rel = [x for x in rel if x not in ("lib", "mod", "main")]
    m = re.search(r"mod\s+(__verif_\w+)", "\n".join(unit["module"]))
    unit["modpath"] = "::".join(rel + ([m.group(1)] if m else []))
    for h in unit["harnesses"]:
        h["fq"] = (unit["modpath"] + "::" if unit["modpath"] else "") + h["name"]
    return unit


def inject(ws: str, unit: dict):
    """apply the unit to the scratch workspace; returns fidelity report"""
    by_file = {}
    for f, item, body in unit["attrs"]:
        by_file.setdefault(f, []).append((item, body))
    fid = []
    touched = set(by_file) | {unit["modfile"]} | {f for f, _ in unit["prepends"]}
    for f in sorted(touched):
        path = os.path.join(ws, f)
        rf = RustFile(path)
        orig = rf.src
        ins = []  # (offset, text)
        for item, body in by_file.get(f, []):
            it = rf.find_item(item)
            # insert above the `fn` line but below doc comments/attributes is not required: put at item start
            # item start may sit on doc comments; attributes go directly above the line holding the keyword
            ls = orig.rfind("\n", 0, it["kw"]) + 1
            indent = re.match(r"\s*", orig[ls:]).group(0)
            text = "".join(indent + l.strip() + "\n" for l in body.split("\n") if l.strip())
            ins.append((ls, text))
        for pf, body in unit["prepends"]:
            if pf == f:
                # crate-level inner attributes must come before items but after the leading inner doc/attrs: put at top
                ins.append((0, body + "\n"))
        if f == unit["modfile"]:
            ins.append((len(orig), "\n" + "\n".join(unit["module"]) + "\n"))
        ins.sort(key=lambda t: t[0])
        out, pos = [], 0
        for off, text in ins:
            out.append(orig[pos:off])
            out.append(text)
            pos = off
        out.append(orig[pos:])
        new = "".join(out)
        # fidelity: removing exactly the inserted segments gives back the repository text
        chk, pos2, shift = [], 0, 0
        cur = new
        rebuilt = []
        p = 0
        for off, text in ins:
            rebuilt.append(cur[p:off + shift])
            p = off + shift + len(text)
            shift += len(text)
        rebuilt.append(cur[p:])
        assert "".join(rebuilt) == orig, f"fidelity check failed for {f}"
        with open(path, "w") as fh:
            fh.write(new)
        fid.append(f"{f}: repository text + {len(ins)} inserted segment(s); stripping them reproduces the file byte for byte")
    return fid


def run_group(ws: str, package: str, flags: list, harnesses: list, jobs: int, log_dir: str, tag: str, extra_z=()):
    """one cargo-kani invocation for several harnesses of one package. returns dict name->result"""
    os.makedirs(log_dir, exist_ok=True)
    out_json = os.path.join(log_dir, f"{tag}.json")
    log = os.path.join(log_dir, f"{tag}.log")
    tmax = max(int(h["timeout"]) for h in harnesses)
    cmd = ["cargo", "kani", "-p", package] + flags + ["-Z", "function-contracts", "-Z", "stubbing", "-Z", "unstable-options", "--no-assert-contracts"]
    for z in extra_z:
        cmd += ["-Z", z]
    for h in harnesses:
        cmd += ["--harness", h.get("fq") or h["name"]]
    if all(h.get("fq") for h in harnesses):
        cmd += ["--exact"]
    cmd += ["-j", str(jobs), "--output-format", "terse", "--harness-timeout", str(tmax), "--export-json", out_json]
    env = dict(os.environ, CARGO_NET_OFFLINE="true")
    t0 = time.time()
    shell = f"ulimit -v {int(os.environ.get('VERIF_KANI_VMEM_KB', 24000000))}; exec " + " ".join(shlex.quote(c) for c in cmd)
    overall = tmax * max(1, (len(harnesses) + jobs - 1) // jobs) + 1200
    try:
        with open(log, "w") as lf:
            p = subprocess.run(["bash", "-c", shell], cwd=ws, env=env, stdout=lf, stderr=subprocess.STDOUT, timeout=overall)
        rc = p.returncode
    except subprocess.TimeoutExpired:
        rc = -9
    wall = time.time() - t0
    res = {}
    logtxt = open(log, errors="replace").read()
    js = None
    if os.path.exists(out_json):
        try:
            js = json.load(open(out_json))
        except Exception:
            js = None
    wanted = {h["name"]: h for h in harnesses}
    if js:
        for r in js.get("verification_results", {}).get("results", []):
            hid = r.get("harness_id", "")
            short = hid.split("::")[-1]
            if short not in wanted:
                continue
            checks = r.get("checks", [])
            failed = [c for c in checks if c.get("status") in ("Failure", "FAILURE")]
            undet = [c for c in checks if c.get("status") in ("Undetermined", "UNDETERMINED")]
            covers = [c for c in checks if c.get("category") == "cover" or "cover" in (c.get("category") or "")]
            cov_bad = [c for c in covers if c.get("status") not in ("Satisfied", "SATISFIED")]
            res[short] = dict(harness=hid, status=r.get("status"), duration_ms=r.get("duration_ms"), n_checks=len(checks),
                              failed=[dict(desc=c.get("description"), loc=c.get("location"), cat=c.get("category"), fn=c.get("function")) for c in failed],
                              undetermined=len(undet), covers=len(covers), covers_unsat=len(cov_bad))
    # harnesses that did not make it to the json (compile error, timeout, crash)
    for name in wanted:
        if name not in res:
            why = "no result"
            if re.search(r"error(\[E\d+\])?:", logtxt):
                why = "compile-or-tool error"
            m = re.search(r"(?i)timed? ?out[^\n]*" + re.escape(name), logtxt) or re.search(re.escape(name) + r"[^\n]*(?i:timed? ?out)", logtxt)
            if m:
                why = "timeout"
            res[name] = dict(harness=name, status="NoResult", reason=why, failed=[], duration_ms=None, n_checks=0, undetermined=0, covers=0, covers_unsat=0)
    return dict(results=res, wall_s=wall, rc=rc, cmd=" ".join(cmd), log=log, stub_lines=sorted(set(re.findall(r"- Stub: [^\n]+", logtxt))))


def classify(hres: dict, h: dict):
    """-> ('ok'|'violation'|'undecided', detail)"""
    st = hres.get("status")
    if st in ("Success", "SUCCESS"):
        if hres.get("covers_unsat"):
            return "undecided", f"vacuity: {hres['covers_unsat']} cover(s) not satisfied"
        return "ok", ""
    if st == "NoResult":
        return "undecided", hres.get("reason", "no result")
    if st in ("Timeout", "TIMEOUT", "TimedOut"):
        return "undecided", "timeout"
    failed = hres.get("failed", [])
    if not failed:
        return "undecided", f"status {st} without failed checks (timeout/oom?)"
    real = [f for f in failed if not re.search(r"unwinding assertion|recursion unwinding", f.get("desc") or "")]
    if not real:
        return "undecided", "unwinding assertion failed (bound too small for this code)"
    unsupported = [f for f in real if re.search(r"is not currently supported by Kani|unsupported", f.get("desc") or "")]
    if unsupported and len(unsupported) == len(real):
        return "undecided", "unsupported construct reached: " + (unsupported[0].get("desc") or "")[:200]
    return "violation", "; ".join(f"{(f.get('desc') or '')[:160]} @ {((f.get('loc') or {}).get('file') or '').split('/')[-1]}:{(f.get('loc') or {}).get('line')}" for f in real[:4])


def playback(ws: str, package: str, flags: list, hname: str, log_dir: str, modfile: str, timeout: int = 1800, extra_z=(), fq: str = None):
    """re-run one failing harness with concrete playback (print), append the generated unit test to the
    injected module, then execute it natively (cargo kani playback): the real code, compiled by rustc,
    on Kani's concrete values."""
    env = dict(os.environ, CARGO_NET_OFFLINE="true")
    log1 = os.path.join(log_dir, f"playback-gen-{hname}.log")
    cmd = ["cargo", "kani", "-p", package] + flags + ["-Z", "function-contracts", "-Z", "stubbing", "-Z", "concrete-playback", "--no-assert-contracts",
                                                        "--concrete-playback=print", "--harness", fq or hname] + (["--exact"] if fq else [])
    for z in extra_z:
        cmd += ["-Z", z]
    try:
        with open(log1, "w") as lf:
            subprocess.run(cmd, cwd=ws, env=env, stdout=lf, stderr=subprocess.STDOUT, timeout=timeout)
    except subprocess.TimeoutExpired:
        return dict(generated=False, reason="playback generation timed out")
    txt = open(log1, errors="replace").read()
    blocks = re.findall(r"```\s*\n(.*?#\[test\].*?)```", txt, re.S)
    if not blocks:
        return dict(generated=False, reason="kani produced no concrete playback test", log_tail=txt[-1500:])
    # Kani emits one test per failed check AND per satisfied cover; run them all, any native failure confirms
    test_src = "\n".join(blocks)
    names = re.findall(r"fn (kani_concrete_playback_\w+)", test_src)
    test = "kani_concrete_playback_" + hname + "_"
    path = os.path.join(ws, modfile)
    src = open(path).read()
    k = src.rstrip().rfind("}")
    src = src[:k] + "\n" + test_src + "\n" + src[k:]
    with open(path, "w") as fh:
        fh.write(src)
    log2 = os.path.join(log_dir, f"playback-run-{hname}.log")
    cmd2 = ["cargo", "kani", "playback", "-p", package] + [f for f in flags if f in ("--lib", "--no-default-features")] + \
           ["-Z", "concrete-playback", "--", test]
    try:
        with open(log2, "w") as lf:
            p = subprocess.run(cmd2, cwd=ws, env=dict(env, RUST_BACKTRACE="0"), stdout=lf, stderr=subprocess.STDOUT, timeout=timeout)
        rc = p.returncode
    except subprocess.TimeoutExpired:
        rc = -9
    out = open(log2, errors="replace").read()
    pm = re.search(r"panicked at [^\n]*\n[^\n]*", out)
    ran = re.search(r"running [1-9]\d* tests?", out) is not None
    confirmed = ran and rc != 0 and ("panicked at" in out or "test result: FAILED" in out)
    failed_tests = re.findall(r"test \S*(kani_concrete_playback_\w+) \.\.\. FAILED", out)
    return dict(generated=True, test=test, tests=names, failed_tests=failed_tests, test_source=test_src, native_ran=ran, native_rc=rc, confirmed=confirmed,
                native_panic=pm.group(0) if pm else "", native_tail=out[-1200:], cmd=" ".join(cmd2))
