"""render the composition terms extracted by compose.py as Verus proof obligations (C03)"""
import compose
from compose import Unsupported

U64MAX = "0xffff_ffff_ffff_ffff"


def _scalar(v):
    if v[0] == "sym":
        return v[1]
    if v[0] == "max":
        return U64MAX
    if v[0] == "bound":
        kind = {"Included": "Incl", "Excluded": "Excl"}[v[1]]
        fld, owner = v[2]
        return f"SB::{kind}({_var(owner)}.{fld})"
    raise Unsupported(f"scalar {v}")


def _var(v):
    if v[0] == "elem":
        return v[1]
    raise Unsupported(f"variable {v}")


def _source(src):
    if src[0] == "l0":
        return "s.l0", "FileMd"
    if src[0] == "levels1":
        return "s.levels", "Seq<FileMd>"
    if src[0] == "ssts":
        return _var(src[1]), "FileMd"
    raise Unsupported(f"source {src}")


def _leaf(t, env):
    if t[0] == "Skip":
        if t[1] == ("mem",):
            return "s.mem"
        if t[1] == ("imm",):
            if not env.get("imm_some"):
                raise Unsupported("immutable memtable used outside `if let Some(imm)`")
            return "s.imm->Some_0"
        raise Unsupported(f"skiplist of {t[1]}")
    if t[0] == "Lazy":
        return f"{_var(t[1])}.entries"
    raise Unsupported(f"leaf {t}")


def expr(t, env):
    k = t[0]
    if k in ("Skip", "Lazy"):
        return _leaf(t, env)
    if k == "Prune":
        return f"prune({expr(t[1], env)}, {_scalar(t[2])})"
    if k == "PruneKeep":
        return f"prune_keep({expr(t[1], env)}, {_scalar(t[2])})"
    if k == "Bounds":
        return f"restrict({expr(t[1], env)}, {_scalar(t[2])}, {_scalar(t[3])})"
    if k in ("Merge", "Concat"):
        return items(t[1], env)
    raise Unsupported(f"term {k}")


def _conds(c):
    return " && ".join((f"cble({_scalar(a)}, {_scalar(b)})" if k == "cble" else f"!cble({_scalar(a)}, {_scalar(b)})") for k, a, b in c[1])


def items(lst, env):
    parts = [item(it, env) for it in lst]
    if not parts:
        return "ISet::<Entry>::empty()"
    out = parts[0]
    for p in parts[1:]:
        out = f"{out}.union({p})"
    return out


def item(it, env):
    if it[0] == "Elem":
        return expr(it[1], env)
    if it[0] == "For":
        seq, ty = _source(it[2])
        body = it[3]
        if body and body[0][0] == "Break" and not any(x[0] in ("Break", "SkipRest") for x in body[1:]):
            return f"union_over_prefix({seq}, |{it[1]}: {ty}| {_conds(body[0][1])}, |{it[1]}: {ty}| {items(body[1:], env)})"
        if any(x[0] in ("Break", "SkipRest") for x in body):
            raise Unsupported("early exit from a loop anywhere but at the top of its body")
        return f"union_over({seq}, |{it[1]}: {ty}| {items(it[3], env)})"
    if it[0] == "If":
        c = it[1]
        if c[0] == "is_some" and c[1] == ("imm",):
            e2 = dict(env, imm_some=True)
            return f"(if s.imm is Some {{ {items(it[2], e2)} }} else {{ ISet::<Entry>::empty() }})"
        if c[0] == "nonempty":
            # `if !list.is_empty() { push(Concat(list)) }`: a concatenation/merge of zero cursors denotes the
            # empty set, so the guard cannot change the denoted set; accepted only in exactly this shape
            if len(it[2]) == 1 and it[2][0][0] == "Elem" and it[2][0][1][0] in ("Concat", "Merge"):
                return items(it[2], env)
            raise Unsupported("non-emptiness guard around something other than one Concat/Merge")
        if c[0] == "and":
            conds = _conds(c)
            return f"(if {conds} {{ {items(it[2], env)} }} else {{ ISet::<Entry>::empty() }})"
        raise Unsupported(f"condition {c}")
    raise Unsupported(f"item {it}")


def concat_obligations(t, env, out):
    """children of a ConcatenatingCursor must be key-ordered: accepted shape is an in-order filter of a
    level's files with each child a subset of its file"""
    if not isinstance(t, tuple):
        return
    if t and t[0] == "Concat":
        for it in t[1]:
            if it[0] != "For" or it[2][0] != "ssts":
                raise Unsupported("ConcatenatingCursor over something other than the files of one level, in order")
    for x in t[1:] if t and isinstance(t[0], str) else t:
        if isinstance(x, tuple):
            concat_obligations(x, env, out)
        elif isinstance(x, list):
            for y in x:
                concat_obligations(y, env, out)


class Gen:
    """generates, for a term node, (C, U, steps): C the raw entries the node is built over, U what the scan
    makes of them, steps the proof text establishing good(C, U, T, LO, HI)"""

    def __init__(self, T, LO, HI):
        self.T, self.LO, self.HI = T, LO, HI
        self.n = 0
        self.obls = []   # human-readable list of generated sub-obligations
        self.lets = []   # closure definitions, hoisted to the top of the lemma body (inner first)
        self.loopvars = []

    def g(self, c, u):
        return f"good({c}, {u}, {self.T}, {self.LO}, {self.HI})"

    def node(self, t, env, ind):
        pad = "    " * ind
        k = t[0]
        if k in ("Skip", "Lazy", "Prune", "PruneKeep", "Bounds"):
            # a chain of per-component cursors over one leaf
            leaf = t
            while leaf[0] in ("Prune", "PruneKeep", "Bounds"):
                leaf = leaf[1]
            if leaf[0] not in ("Skip", "Lazy"):
                # a combinator below a per-component cursor: treat the inner node as the component
                c, u_in, steps = self.node(leaf, env, ind)
                raise Unsupported("cursor stacked on top of an inner merge/concat below the outer pruning")
            c = _leaf(leaf, env)
            u = expr(t, env)
            self.obls.append(f"component {c}: {u}")
            return c, u, f"{pad}assert({self.g(c, u)}); // what the scan makes of this component keeps its newest in-range versions\n"
        if k in ("Merge", "Concat"):
            return self.items(t[1], env, ind)
        raise Unsupported(f"term {k}")

    def items(self, lst, env, ind):
        pad = "    " * ind
        if not lst:
            e = "ISet::<Entry>::empty()"
            return e, e, f"{pad}assert({self.g(e, e)});\n"
        c, u, steps = self.item(lst[0], env, ind)
        for it in lst[1:]:
            c2, u2, s2 = self.item(it, env, ind)
            steps += s2
            steps += f"{pad}lemma_good_union({c}, {u}, {c2}, {u2}, {self.T}, {self.LO}, {self.HI});\n"
            c, u = f"{c}.union({c2})", f"{u}.union({u2})"
        return c, u, steps

    def item(self, it, env, ind):
        pad = "    " * ind
        if it[0] == "Elem":
            return self.node(it[1], env, ind)
        if it[0] == "For" and any(x[0] in ("Break", "SkipRest") for x in it[3]):
            # an early exit from the loop over the files: the script has no argument for leaving the remaining files out;
            # the obligation is stated bare (Verus will reject it unless it is trivially true) and the witness search decides
            seq, ty = _source(it[2])
            var = it[1]
            rest = [x for x in it[3] if x[0] not in ("Break", "SkipRest")]
            self.loopvars.append(var)
            cb, ub0, _sb = self.items(rest, env, ind + 1)
            self.loopvars.pop()
            self.n += 1
            cf = f"comp_{self.n}"
            self.lets.append(f"    let {cf} = |{var}: {ty}| {cb};\n")
            c = f"union_over({seq}, {cf})"
            u = item(it, env)
            self.obls.append(f"early exit from the loop over {seq} leaves out no file that can hold an in-range key")
            return c, u, f"{pad}assert({self.g(c, u)}); // early exit from the loop: nothing justifies skipping the remaining files\n"
        if it[0] == "For":
            seq, ty = _source(it[2])
            var = it[1]
            self.loopvars.append(var)
            cb, ub, sb = self.items(it[3], env, ind + 1)
            self.loopvars.pop()
            self.n += 1
            cf, pf = f"comp_{self.n}", f"part_{self.n}"
            import re as _re
            for outer in self.loopvars:
                if outer != var and (_re.search(r"\b" + outer + r"\b", cb) or _re.search(r"\b" + outer + r"\b", ub)):
                    raise Unsupported(f"cursor built inside `for {var}` depends on the enclosing loop variable {outer}")
            self.lets.append(f"    let {cf} = |{var}: {ty}| {cb};\n    let {pf} = |{var}: {ty}| {ub};\n")
            steps = ""
            steps += f"{pad}assert forall|i_{self.n}: int| 0 <= i_{self.n} < {seq}.len() implies good(#[trigger] {cf}({seq}[i_{self.n}]), {pf}({seq}[i_{self.n}]), {self.T}, {self.LO}, {self.HI}) by {{\n"
            steps += f"{pad}    let {var} = {seq}[i_{self.n}];\n"
            if ty == "FileMd":
                steps += f"{pad}    assert(file_ok({var}));\n"
            steps += sb
            steps += f"{pad}}}\n"
            steps += f"{pad}lemma_good_family({seq}, {cf}, {pf}, {self.T}, {self.LO}, {self.HI});\n"
            return f"union_over({seq}, {cf})", f"union_over({seq}, {pf})", steps
        if it[0] == "If":
            c = it[1]
            if c[0] == "is_some" and c[1] == ("imm",):
                e2 = dict(env, imm_some=True)
                cb, ub, sb = self.items(it[2], e2, ind + 1)
                cc = f"(if s.imm is Some {{ {cb} }} else {{ ISet::<Entry>::empty() }})"
                uu = f"(if s.imm is Some {{ {ub} }} else {{ ISet::<Entry>::empty() }})"
                steps = f"{pad}if s.imm is Some {{\n{sb}{pad}}}\n{pad}assert({self.g(cc, uu)});\n"
                return cc, uu, steps
            if c[0] == "nonempty":
                if len(it[2]) == 1 and it[2][0][0] == "Elem" and it[2][0][1][0] in ("Concat", "Merge"):
                    return self.items(it[2], env, ind)
                raise Unsupported("non-emptiness guard around something other than one Concat/Merge")
            if c[0] == "and":
                cb, ub, sb = self.items(it[2], env, ind)
                conds = _conds(c)
                uu = f"(if {conds} {{ {ub} }} else {{ ISet::<Entry>::empty() }})"
                # the file the condition talks about
                owners = {_var(x[2][1]) for _, a, b in c[1] for x in (a, b) if x[0] == "bound"}
                steps = sb
                if len(owners) == 1:
                    f = owners.pop()
                    steps += f"{pad}lemma_skip_sound({f}, {ub}, {self.T}, {self.LO}, {self.HI}, cble);\n"
                steps += f"{pad}assert({self.g(cb, uu)}); // skipping is allowed only when nothing of the file can be in range\n"
                self.obls.append(f"filter {conds} keeps every file that can hold an in-range key")
                return cb, uu, steps
            raise Unsupported(f"condition {c}")
        raise Unsupported(f"item {it}")


def lemma(name, term, t_spec, extra_params, A="all_entries(s)"):
    env = {}
    concat_obligations(term, env, [])
    e = expr(term, env)
    body = ""
    obls = []
    if term[0] == "Bounds" and term[1][0] == "Prune":
        T, LO, HI = _scalar(term[1][2]), _scalar(term[2]), _scalar(term[3])
        gen = Gen(T, LO, HI)
        c, u, steps = gen.node(term[1][1], env, 1)
        obls = gen.obls
        body = "".join(gen.lets) + steps
        body += f"    assert({c} =~= {A}); // the scan is built over exactly the components of the snapshot\n"
        body += f"    lemma_prune_restrict_congruence({u}, {A}, {T}, {LO}, {HI});\n"
    text = f"""
// GENERATED by tools/compose_verus.py from the body of {name} (and the functions it calls)
pub proof fn lemma_{name}(s: Snap{extra_params}, start_bound: SB, end_bound: SB, cble: spec_fn(SB, SB) -> bool)
    requires
        snap_ok(s), ts_ok({A}),
        forall|a: SB, b: SB| overlaps(a, b) ==> #[trigger] cble(a, b),
    ensures
        {e}
            =~= restrict(prune({A}, {t_spec}), start_bound, end_bound),
{{
{body}}}
"""
    return text


def render(repo):
    terms, sources = compose.build_terms(repo)
    out = []
    out.append(lemma("kvs_range_scan", terms["kvs"], "seq_no", ", seq_no: int"))
    if "lsmtree" in terms:
        out.append(lemma("lsmtree_range_scan", terms["lsmtree"], U64MAX, "", A="tree_entries(s)"))
    header = "// composition terms as extracted on this run:\n" + "".join("//   " + l + "\n" for k, v in terms.items() for l in (f"[{k}]\n" + compose.show(v)).split("\n") if l)
    return header + "\n".join(out)


if __name__ == "__main__":
    import sys
    print(render(sys.argv[1] if len(sys.argv) > 1 else "/repo"))
