#!/usr/bin/env python3
"""writes MANIFEST.json from props.toml + manifest_meta.toml (so the two never drift)"""
import json, tomllib, os
H = os.path.dirname(os.path.dirname(os.path.abspath(__file__)))
props = tomllib.load(open(f"{H}/props.toml", "rb"))
meta = tomllib.load(open(f"{H}/manifest_meta.toml", "rb"))
checks = []
for pid in sorted(props):
    if pid not in meta["claimed"]:
        continue  # unit under development: not claimed until its check is registered here
    m = meta["claimed"][pid]
    checks.append(dict(
        property_id=pid,
        quick_cmd=f"./check {pid} --tier quick",
        thorough_cmd=f"./check {pid} --tier thorough",
        evidence_file=f"evidence/{pid}.json",
        replay_cmd_template=f"./check {pid} --tier thorough",
        engine="contracts",
        level_claimed=dict(category=props[pid].get("level", "other"), text=m["text"], design_ref=m.get("design_ref", "DESIGN.md section 4")),
        level_note=m["note"],
        technique=m["technique"],
    ))
claimed_ids = {c["property_id"] for c in checks}
na = [dict(property_id=k, reason=v) for k, v in sorted(meta["not_applicable"].items()) if k not in claimed_ids]
man = dict(
    version=1,
    setup_cmd="python3 tools/selftest.py",
    hooks=dict(guard="rescrv_blue_verif", enable="none: contracts are injected into a scratch copy; cfg(kani) is set by Kani itself; no guarded hook exists in /repo",
               baseline_off_cmd="cd /repo && cargo test --workspace --no-fail-fast --offline", source_commits=[], add_only=True),
    engines=[dict(name="contracts", path="check", serves_properties=sorted(claimed_ids),
                  kind_free_text="contract-based deductive verification: Verus on functions extracted mechanically from /repo each run; Kani function contracts and full-domain harnesses injected into a scratch copy of the real crates")],
    checks=checks,
    notes=meta.get("notes", ""),
    not_applicable=na,
)
json.dump(man, open(f"{H}/MANIFEST.json", "w"), indent=1)
print("claimed", [c["property_id"] for c in checks], "n/a", [n["property_id"] for n in na])
