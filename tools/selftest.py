#!/usr/bin/env python3
"""setup: nothing to build (the framework is Python + installed verifiers); verify tools exist."""
import shutil, sys
missing = [t for t in ("verus", "cargo-kani", "cbmc", "rsync", "cargo") if not shutil.which(t)]
if missing:
    print("missing tools:", missing); sys.exit(1)
print("ok")
