"""C03 witness search: evaluate the composition term extracted by compose.py on small concrete snapshots
and compare with the property's definition  restrict(prune(all entries, t), bounds).

This is NOT the deciding step (Verus is); it looks for a concrete failing input for an obligation Verus
rejected, so that the failure can be replayed through the public API of the real store.
Cursor constructors are evaluated by their C11 definitions over entry sets.
"""
import itertools

import compose
from compose import Unsupported

U64MAX = (1 << 64) - 1


def in_lo(k, b):
    return b is None or (b[0] == "I" and b[1] <= k) or (b[0] == "E" and b[1] < k)


def in_hi(k, b):
    return b is None or (b[0] == "I" and k <= b[1]) or (b[0] == "E" and k < b[1])


def restrict(s, lo, hi):
    return {e for e in s if in_lo(e[0], lo) and in_hi(e[0], hi)}


def newest(s, t):
    out = set()
    for e in s:
        if e[1] <= t and all(not (f[0] == e[0] and f[1] <= t and f[1] > e[1]) for f in s):
            out.add(e)
    return out


def prune(s, t):
    return {e for e in newest(s, t) if e[2] is not None}


def cble(lhs, rhs):
    """closed form of 'some key is >= lhs (as a start bound) and <= rhs (as an end bound)' for the four
    bound kinds, except Excluded/Excluded where the code's `x < y` is used (sound, not complete)"""
    if lhs is None or rhs is None:
        return True
    (lk, x), (rk, y) = lhs, rhs
    if lk == "I" and rk == "I":
        return x <= y
    return x < y


class Snap:
    def __init__(self, mem, imm, l0, levels):
        self.mem, self.imm, self.l0, self.levels = mem, imm, l0, levels

    def all(self, tree_only=False):
        s = set()
        if not tree_only:
            s |= self.mem
            if self.imm is not None:
                s |= self.imm
        for f in self.l0:
            s |= f
        for lv in self.levels:
            for f in lv:
                s |= f
        return s


def _scalar(v, env):
    if v[0] == "sym":
        return env[v[1]]
    if v[0] == "max":
        return U64MAX
    if v[0] == "bound":
        f = env[v[2][1][1]]
        keys = sorted(e[0] for e in f)
        if not keys:
            return ("I", b"")
        k = keys[0] if v[2][0] == "first_key" else keys[-1]
        return ({"Included": "I", "Excluded": "E"}[v[1]], k)
    if v[0] == "elem":
        return env[v[1]]
    raise Unsupported(f"scalar {v}")


def ev(t, env, snap):
    k = t[0]
    if k == "Skip":
        return snap.mem if t[1] == ("mem",) else (env.get("__imm__") or set())
    if k == "Lazy":
        return env[t[1][1]]
    if k == "Prune":
        return prune(ev(t[1], env, snap), _scalar(t[2], env))
    if k == "PruneKeep":
        return newest(ev(t[1], env, snap), _scalar(t[2], env))
    if k == "Bounds":
        return restrict(ev(t[1], env, snap), _scalar(t[2], env), _scalar(t[3], env))
    if k in ("Merge", "Concat"):
        s = set()
        for it in t[1]:
            s |= ev_item(it, env, snap)
        return s
    raise Unsupported(k)


def _cond_true(c, env):
    if c[0] != "and":
        raise Unsupported(c)
    return all((cble(_scalar(a, env), _scalar(b, env)) == (k == "cble")) for k, a, b in c[1])


def ev_item(it, env, snap):
    if it[0] == "Elem":
        return ev(it[1], env, snap)
    if it[0] == "For":
        src = it[2]
        if src[0] == "l0":
            seq = snap.l0
        elif src[0] == "levels1":
            seq = snap.levels
        elif src[0] == "ssts":
            seq = env[src[1][1]]
        else:
            raise Unsupported(src)
        s = set()
        stop = False
        for x in seq:
            e2 = dict(env)
            e2[it[1]] = x
            for sub in it[3]:
                if sub[0] in ("Break", "SkipRest"):
                    if _cond_true(sub[1], e2):
                        stop = sub[0] == "Break"
                        break
                    continue
                s |= ev_item(sub, e2, snap)
            if stop:
                break
        return s
    if it[0] == "If":
        c = it[1]
        if c[0] == "is_some":
            if snap.imm is None:
                return set()
            e2 = dict(env, __imm__=snap.imm)
            s = set()
            for sub in it[2]:
                s |= ev_item(sub, e2, snap)
            return s
        if c[0] == "nonempty":
            s = set()
            for sub in it[2]:
                s |= ev_item(sub, env, snap)
            return s
        if c[0] == "and":
            ok = _cond_true(c, env)
            s = set()
            if ok:
                for sub in it[2]:
                    s |= ev_item(sub, env, snap)
            return s
    raise Unsupported(it)


KEYS = [b"a", b"b"]
BOUNDS = [None, ("I", b"a"), ("E", b"a"), ("I", b"b"), ("E", b"b")]


def search(term, which, max_entries=3, comps=None, budget=400000):
    """-> witness dict or None.  Snapshot components: mem, imm, two L0 files, one level with two files."""
    tree_only = which == "lsmtree"
    comps = comps or (["l0_0", "l0_1", "l1_0", "l1_1"] if tree_only else ["l0_0", "l0_1", "mem", "imm", "l1_0", "l1_1"])
    n_eval = 0
    for n in range(1, max_entries + 1):
        for keys in itertools.product(KEYS, repeat=n):
            for vals in itertools.product([b"v", None], repeat=n):
                for where in itertools.product(comps, repeat=n):
                    # timestamps are unique in the store: entry i has timestamp i+1
                    tab = {c: set() for c in ["mem", "imm", "l0_0", "l0_1", "l1_0", "l1_1"]}
                    for i in range(n):
                        v = vals[i]
                        tab[where[i]].add((keys[i], i + 1, (v + bytes([0x30 + i])) if v else None))
                    # files of a level >= 1 are key-ordered and disjoint
                    if tab["l1_0"] and tab["l1_1"]:
                        if max(e[0] for e in tab["l1_0"]) >= min(e[0] for e in tab["l1_1"]):
                            continue
                    lvl = [f for f in (tab["l1_0"], tab["l1_1"]) if f]
                    snap = Snap(tab["mem"], tab["imm"] if "imm" in where else None, [tab["l0_0"], tab["l0_1"]], [lvl] if lvl else [])
                    for lo in BOUNDS:
                        for hi in BOUNDS:
                            ts_list = [U64MAX] if tree_only else list(range(0, n + 1))
                            for t in ts_list:
                                n_eval += 1
                                if n_eval > budget:
                                    return None, n_eval
                                env = dict(start_bound=lo, end_bound=hi, seq_no=t)
                                got = ev(term, env, snap)
                                want = restrict(prune(snap.all(tree_only), t), lo, hi)
                                if got != want:
                                    return dict(which=which, entries={c: sorted(tab[c], key=lambda e: (e[0], -e[1])) for c in tab if tab[c]},
                                                imm_present=snap.imm is not None, lo=lo, hi=hi, t=t,
                                                scan=sorted(got), expected=sorted(want)), n_eval
    return None, n_eval


def witness_file(w, path):
    """write the line-oriented witness for contracts/c03_replay.rs; only tree components can be replayed
    through LsmTree::ingest (everything lands in level 0)"""
    def hx(b):
        return b.hex() if b else "-"
    lines = []
    bk = lambda b: ("U -" if b is None else f"{b[0]} {b[1].hex()}")
    lines.append(f"bounds {bk(w['lo'])} {bk(w['hi'])}")
    for c in ("l1_0", "l1_1", "l0_0", "l0_1", "imm", "mem"):
        if c in w["entries"]:
            lines.append("file")
            for k, ts, v in w["entries"][c]:
                lines.append(f"e {k.hex()} {ts} {v.hex() if v is not None else '-'}")
    for k, ts, v in w["expected"]:
        lines.append(f"expect {k.hex()} {v.hex()}")
    open(path, "w").write("\n".join(lines) + "\n")


if __name__ == "__main__":
    import sys
    terms, _ = compose.build_terms(sys.argv[1] if len(sys.argv) > 1 else "/repo")
    for which, term in terms.items():
        w, n = search(term, which)
        print(which, "evaluations", n, "witness", w)
